------------------------------ MODULE APA_Arith ------------------------------
(***************************************************************************)
(* Arithmetic laws over the FULL 32-bit domain, decided symbolically by    *)
(* Apalache (apalache-mc check --length=0 --inv=<Law>):                    *)
(*   RoundLaw   RoundUp8(n) is the least multiple of 8 that is >= n  (C14) *)
(*   CkLaw      magic + arch + length + Checksum = 0 (mod 2^32)      (C10) *)
(*   LimbLaw    the 16-bit-limb operators TLC evaluates (MB2Bytes:         *)
(*              LimbAdd, LimbNeg) agree with integer arithmetic mod 2^32   *)
(* The operators are textual copies of those in MB2Bytes / MB2Header       *)
(* (Apalache needs typed, record-free definitions).                        *)
(***************************************************************************)
EXTENDS Integers

VARIABLES
  \* @type: Int;
  n,
  \* @type: Int;
  m,
  \* @type: Int;
  a,
  \* @type: Int;
  l,
  \* @type: Int;
  k,
  \* @type: Int;
  xl,
  \* @type: Int;
  xh,
  \* @type: Int;
  yl,
  \* @type: Int;
  yh

W == 4294967296
RoundUp8(x) == ((x + 8 - 1) \div 8) * 8

Init ==
  /\ n \in 0..(W - 1) /\ m \in 0..(W - 1) /\ a \in {0, 4} /\ l \in 0..(W - 1) /\ k \in 0..(W + 8)
  /\ xl \in 0..65535 /\ xh \in 0..65535 /\ yl \in 0..65535 /\ yh \in 0..65535
Next == UNCHANGED <<n, m, a, l, k, xl, xh, yl, yh>>

RoundLaw ==
  /\ RoundUp8(n) % 8 = 0 /\ RoundUp8(n) >= n /\ RoundUp8(n) < n + 8
  /\ ((k % 8 = 0 /\ k >= n) => k >= RoundUp8(n))                      \* least such multiple (k ranges over the domain)

\* checksum on integers
Checksum(mm, aa, ll) == (W - ((mm + aa + ll) % W)) % W
CkLaw == LET c == Checksum(m, a, l) IN c >= 0 /\ c < W /\ (m + a + l + c) % W = 0

\* limbs: value = hi * 65536 + lo
AddLo(al, bl) == (al + bl) % 65536
AddHi(al, ah, bl, bh) == (ah + bh + ((al + bl) \div 65536)) % 65536
NegLo(al) == (65536 - al) % 65536
NegHi(al, ah) == ((65536 - ah - (IF al = 0 THEN 0 ELSE 1)) + 65536) % 65536
Val(lo, hi) == hi * 65536 + lo
LimbLaw ==
  /\ Val(AddLo(xl, yl), AddHi(xl, xh, yl, yh)) = (Val(xl, xh) + Val(yl, yh)) % W
  /\ Val(NegLo(xl), NegHi(xl, xh)) = (W - Val(xl, xh)) % W
=============================================================================
