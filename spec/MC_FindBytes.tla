---------------------------- MODULE MC_FindBytes ----------------------------
(***************************************************************************)
(* C13 on the byte level.                                                  *)
(* (1) Design vs statement, exhaustive in the small: for EVERY byte string *)
(*     of length <= SmallLen over {00, D6, 50, 52, E8} the 4-byte window   *)
(*     scan (DesignHdrFind) with Window in {4, 5, 6, 12} returns what the declarative  *)
(*     statement (HdrFindSpec) returns.                                    *)
(* (2) Byte-level replays: short buffers with magic fragments, overlapping *)
(*     and repeated magics, judged by the byte-level statement (the        *)
(*     structural corpus MC_Find covers the 8192 window).                  *)
(***************************************************************************)
EXTENDS MCBase

CONSTANTS SmallLen

Alphabet == {0, 214, 80, 82, 232}
RECURSIVE Strs(_)
Strs(n) == IF n = 0 THEN {<<>>} ELSE {<<>>} \cup { <<x>> \o r : x \in Alphabet, r \in Strs(n - 1) }
\* the design may answer any error where the statement says "an error"
SameFind(a, b) == IF b.k = "err" THEN a.k = "err" ELSE a = b
ASSUME \A s \in Strs(SmallLen) : \A win \in {4, 5, 6, 12} : SameFind(DesignHdrFind(s, win), HdrFindSpec(s, win))

M == HdrMagic
Frag == << <<214, 80, 82>>, <<214, 80, 82, 233>>, <<214, 214, 80, 82, 232>>, <<80, 82, 232, 214>>, M \o M, <<214, 80>> \o M >>
Hdr(len) == M \o <<0, 0, 0, 0>> \o U32Bytes(len) \o <<0, 0, 0, 0>>
FindBytesParams ==
  { [pre |-> pre, frag |-> f, pos |-> pos, hl |-> hl, tail |-> t]
    : pre \in {0, 3, 8}, f \in 0..Len(Frag), pos \in {0, 1, 7, 8, 9, 16}, hl \in {0, 12, 16, 24, 255}, t \in {0, 4, 8, 24} }
FindBytesImage(p) ==
  [i \in 1..p.pre |-> 0]
  \o (IF p.frag = 0 THEN <<>> ELSE Frag[p.frag])
  \o [i \in 1..p.pos |-> 1]
  \o Hdr(p.hl) \o [i \in 1..p.tail |-> 7]
FindBytesCase(p) ==
  [mem |-> FindBytesImage(p), al |-> 0, calls |-> <<[op |-> "find_header"]>>, desc |-> [area |-> "findbytes"] @@ p]
=============================================================================
