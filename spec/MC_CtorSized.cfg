SPECIFICATION MCSpec
CONSTANT Params <- CtorSizedParams
CONSTANT MkCase <- CtorCase
CONSTANT MaxContent = 17
CONSTANT MaxSeq = 3
CONSTANT MaxTotal = 8
CONSTANT BigPalettes = {}
CONSTANT BigRequests = {}
INVARIANT DesignAccepted
INVARIANT DesignControlled
INVARIANT Export
PROPERTY Terminates
CHECK_DEADLOCK FALSE
