SPECIFICATION MCSpec
CONSTANT Params <- SizedParams
CONSTANT MkCase <- SizedCase
CONSTANT SizedSpread = 9
INVARIANT DesignAccepted
INVARIANT DesignControlled
INVARIANT Export
PROPERTY Terminates
CHECK_DEADLOCK FALSE
