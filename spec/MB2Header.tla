------------------------------ MODULE MB2Header ------------------------------
(***************************************************************************)
(* multiboot2-header: the Multiboot2 header of an OS image: loading (C10), *)
(* walking and decoding (C09 / C11), searching a binary for it (C13).      *)
(***************************************************************************)
EXTENDS MB2Info

HdrMagic == <<214, 80, 82, 232>>              \* 0xE85250D6 little endian
InfoMagic == <<137, 98, 215, 54>>             \* 0x36D76289 little endian

\* ---- checksum (C10): magic + arch + length + checksum = 0 (mod 2^32), on 16-bit limbs ----
ChecksumLimb(m, a, l) == LimbNeg(LimbAdd(LimbAdd(m, a), l))
ChecksumBytes(m4, a4, l4) == LimbBytes(ChecksumLimb(Limb(m4), Limb(a4), Limb(l4)))
ChecksumOk(m4, a4, l4, c4) == LimbAdd(LimbAdd(LimbAdd(Limb(m4), Limb(a4)), Limb(l4)), Limb(c4)) = LimbZero

\* ---- loading (C10) --------------------------------------------------------------------------
\* mem: header (16 bytes: magic, arch, length, checksum) followed by the declared region
HLoadSpec(isNull, mem) ==
  IF isNull THEN Err("Memory(Null)")
  ELSE LET L == U32At(mem, 8) IN
       IF L < 16 THEN Err("Memory(ShorterThanHeader)")
       ELSE IF L % 8 # 0 THEN Err("Memory(MissingPadding)")
       ELSE IF Bytes(mem, 0, 4) # HdrMagic THEN Err("MagicNotFound")
       ELSE IF ~ChecksumOk(Bytes(mem, 0, 4), Bytes(mem, 4, 4), Bytes(mem, 8, 4), Bytes(mem, 12, 4)) THEN Err("ChecksumMismatch")
       ELSE Ok([len |-> L])
AcceptHLoad(isNull, mem, o) ==
  LET s == HLoadSpec(isNull, mem) IN
  IF s.k = "err" THEN o.k = "err" /\ o.e = s.e ELSE o.k = "ok"
\* reference design: null check, ref_from_ptr on the declared length, magic, checksum
DesignHLoad(isNull, mem) ==
  IF isNull THEN Err("Memory(Null)")
  ELSE LET L == U32At(mem, 8)  r == DesignRefFromSlice(HMB, L, 0, L) IN
       IF r.k = "err" THEN Err("Memory(" \o r.e \o ")")
       ELSE IF r.k = "panic" THEN Panic
       ELSE IF Bytes(mem, 0, 4) # HdrMagic THEN Err("MagicNotFound")
       ELSE IF ChecksumBytes(Bytes(mem, 0, 4), Bytes(mem, 4, 4), Bytes(mem, 8, 4)) # Bytes(mem, 12, 4) THEN Err("ChecksumMismatch")
       ELSE Ok([len |-> L])

HWalk(mem) == WalkFrom(mem, 16, U32At(mem, 8), <<>>)

\* ---- header tag kinds (Multiboot2 specification 3.1.x) ------------------------------------------
HeaderKindNames == {"hend", "info_req", "address", "entry", "console", "hfb", "module_align", "hefi_bs",
                    "entry_efi32", "entry_efi64", "relocatable"}
HeaderKind(name) ==
  CASE name = "hend"         -> SizedK(0, 8, <<>>)
    [] name = "info_req"     -> DstK(1, 8, 4, <<>>)
    [] name = "address"      -> SizedK(2, 24, <<F("header_addr", 8, 4, 4), F("load_addr", 12, 4, 4),
                                                F("load_end_addr", 16, 4, 4), F("bss_end_addr", 20, 4, 4)>>)
    [] name = "entry"        -> SizedK(3, 12, <<F("entry_addr", 8, 4, 4)>>)
    [] name = "console"      -> SizedK(4, 12, <<F("console_flags", 8, 4, 4)>>)
    [] name = "hfb"          -> SizedK(5, 20, <<F("width", 8, 4, 4), F("height", 12, 4, 4), F("depth", 16, 4, 4)>>)
    [] name = "module_align" -> SizedK(6, 8, <<>>)
    [] name = "hefi_bs"      -> SizedK(7, 8, <<>>)
    [] name = "entry_efi32"  -> SizedK(8, 12, <<F("entry_addr", 8, 4, 4)>>)
    [] name = "entry_efi64"  -> SizedK(9, 12, <<F("entry_addr", 8, 4, 4)>>)
    [] name = "relocatable"  -> SizedK(10, 24, <<F("min_addr", 8, 4, 4), F("max_addr", 12, 4, 4),
                                                 F("align", 16, 4, 4), F("preference", 20, 4, 4)>>)
HTagHdrFields == <<F("typ", 0, 2, 2), F("flags", 2, 2, 2), F("size", 4, 4, 4)>>
HFieldsOf(K) == HTagHdrFields \o K.fields
HFieldNamed(K, n) == LET S == {i \in 1..Len(HFieldsOf(K)) : HFieldsOf(K)[i].n = n} IN
                     IF S = {} THEN [n |-> "?", off |-> 0, w |-> 0, rw |-> 0] ELSE HFieldsOf(K)[CHOOSE i \in S : TRUE]

\* first header tag whose 16-bit type equals id
FirstOfHType(w, id) == LET S == {i \in 1..Len(w.items) : SubSeq(w.items[i].typ, 1, 2) = U16Bytes(id)} IN
                       IF S = {} THEN 0 ELSE CHOOSE i \in S : \A j \in S : i <= j
HFindSpec(w, id) ==
  LET i == FirstOfHType(w, id) IN
  IF i > 0 THEN [k |-> "found", it |-> w.items[i]]
  ELSE IF w.fin = "panic" THEN [k |-> "panic"] ELSE [k |-> "absent"]
HGetSpec(mem, name) ==
  LET K == HeaderKind(name)  f == HFindSpec(HWalk(mem), K.id) IN
  IF f.k # "found" THEN f
  ELSE LET vs == ViewSpec(K, f.it) IN
       IF vs = "panic" THEN [k |-> "panic"] ELSE [k |-> vs, it |-> f.it]

\* ---- C13: searching a binary image for the header ---------------------------------------------------
\* declarative statement; Window = 8192 in the implementation
HdrFindSpec(mem, Window) ==
  LET W == Min(Len(mem), Window)
      S == {i \in 0..(W - 4) : Bytes(mem, i, 4) = HdrMagic} IN
  IF S = {} THEN Ok(None)
  ELSE LET i == CHOOSE x \in S : \A y \in S : x <= y IN
       IF i % 8 # 0 THEN [k |-> "err"]
       ELSE IF i + 12 > Len(mem) THEN [k |-> "err"]
       ELSE LET hl == U32At(mem, i + 8) IN
            IF hl > Len(mem) - i THEN [k |-> "err"]
            ELSE Ok(Some([at |-> i, len |-> hl, idx |-> U32Bytes(i)]))
AcceptHdrFind(s, o) ==
  IF s.k = "err" THEN o.k = "err"
  ELSE IF s.v.k = "none" THEN o.k = "ok" /\ o.v.k = "none"
  ELSE o.k = "ok" /\ o.v.k = "some" /\ o.v.v.at = s.v.v.at /\ o.v.v.len = s.v.v.len /\ o.v.v.idx = s.v.v.idx
\* the same statement on a structural buffer  mx = [len, fill, patch: <<[off, b]>>]  (large buffers);
\* a window of 4 equal fill bytes can never be the magic, so only positions touching a patch are candidates
XByte(mx, i) ==
  LET P == {k \in 1..Len(mx.patch) : i >= mx.patch[k].off /\ i < mx.patch[k].off + Len(mx.patch[k].b)} IN
  IF P = {} THEN (IF "tile" \in DOMAIN mx THEN mx.tile[(i % Len(mx.tile)) + 1] ELSE mx.fill)     \* "tile": a repeated pattern under the patches
  ELSE LET k == CHOOSE x \in P : \A y \in P : x >= y IN mx.patch[k].b[i - mx.patch[k].off + 1]
XBytes(mx, i, n) == [j \in 1..n |-> XByte(mx, i + j - 1)]
XCand(mx) == UNION { (mx.patch[k].off - 3)..(mx.patch[k].off + Len(mx.patch[k].b) - 1) : k \in 1..Len(mx.patch) }
HdrFindSpecX(mx, Window) ==
  LET W == Min(mx.len, Window)
      S == {i \in XCand(mx) : i >= 0 /\ i + 4 <= W /\ XBytes(mx, i, 4) = HdrMagic} IN
  IF S = {} THEN Ok(None)
  ELSE LET i == CHOOSE x \in S : \A y \in S : x <= y IN
       IF i % 8 # 0 THEN [k |-> "err"]
       ELSE IF i + 12 > mx.len THEN [k |-> "err"]
       ELSE LET hl == LE4(XBytes(mx, i + 8, 4)) IN
            IF hl > mx.len - i THEN [k |-> "err"]
            ELSE Ok(Some([at |-> i, len |-> hl, idx |-> U32Bytes(i)]))
\* loading on a structural (large) region: only the header words and the last 8 bytes are read
\* "huge": a region of len8 * 8 >= 2^30 bytes (beyond TLC's integers: sizes are kept in units of 8 bytes and as byte
\* lists; the harness reports sizes >= 2^30 as Far); structurally a header, zeros, and the last 8 bytes
Shl3(b) == [i \in 1..4 |-> ((b[i] * 8) % 256) + (IF i > 1 THEN b[i - 1] \div 32 ELSE 0)]      \* 8 * value, as 4 LE bytes
LoadSpecX(mx) ==
  IF "huge" \in DOMAIN mx THEN (IF mx.huge.endok THEN Ok([start |-> 0, end |-> Far, ptr |-> 0, total |-> Far]) ELSE Err("NoEndTag")) ELSE
  LET T == LE4(XBytes(mx, 0, 4)) IN
  IF T < 8 THEN Err("Memory(ShorterThanHeader)")
  ELSE IF T % 8 # 0 THEN Err("Memory(MissingPadding)")
  ELSE IF XBytes(mx, T - 8, 8) # EndTagBytes THEN Err("NoEndTag")
  ELSE Ok([start |-> 0, end |-> T, ptr |-> 0, total |-> T])
HLoadSpecX(mx) ==
  IF "huge" \in DOMAIN mx THEN (IF mx.huge.endok THEN Ok([len |-> Far]) ELSE Err("ChecksumMismatch")) ELSE
  LET L == LE4(XBytes(mx, 8, 4)) IN
  IF L < 16 THEN Err("Memory(ShorterThanHeader)")
  ELSE IF L % 8 # 0 THEN Err("Memory(MissingPadding)")
  ELSE IF XBytes(mx, 0, 4) # HdrMagic THEN Err("MagicNotFound")
  ELSE IF ~ChecksumOk(XBytes(mx, 0, 4), XBytes(mx, 4, 4), XBytes(mx, 8, 4), XBytes(mx, 12, 4)) THEN Err("ChecksumMismatch")
  ELSE Ok([len |-> L])
\* reference design: a 4-byte window scan over the first min(len, Window) bytes
RECURSIVE ScanFrom(_, _, _)
ScanFrom(mem, i, W) ==
  IF i + 4 > W THEN -1
  ELSE IF Bytes(mem, i, 4) = HdrMagic THEN i ELSE ScanFrom(mem, i + 1, W)
DesignHdrFind(mem, Window) ==
  LET W == Min(Len(mem), Window)  i == ScanFrom(mem, 0, W) IN
  IF i < 0 THEN Ok(None)
  ELSE IF i % 8 # 0 THEN [k |-> "err"]
  ELSE IF ~InRange(mem, i + 8, 4) THEN [k |-> "err"]
  ELSE LET hl == U32At(mem, i + 8) IN
       IF hl >= Far \/ ~InRange(mem, i, hl) THEN [k |-> "err"]
       ELSE Ok(Some([at |-> i, len |-> hl, idx |-> U32Bytes(i)]))
=============================================================================
