SPECIFICATION MCSpec
CONSTANT Params <- RsdpParams
CONSTANT MkCase <- RsdpCase
INVARIANT DesignAccepted
INVARIANT DesignControlled
INVARIANT Export
PROPERTY Terminates
CHECK_DEADLOCK FALSE
