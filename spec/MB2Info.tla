------------------------------- MODULE MB2Info -------------------------------
(***************************************************************************)
(* multiboot2: the boot information structure: loading (C02), walking      *)
(* (C03), typed getters and field decoding (C04), variable-length extents  *)
(* (C05), strings (C17), EFI memory map (C18), ELF sections (C19).         *)
(***************************************************************************)
EXTENDS MB2Common

\* ---- C02: loading -------------------------------------------------------------
\* mem is the declared region: Len(mem) >= declared total size whenever that is < Far
EndTagBytes == <<0, 0, 0, 0, 8, 0, 0, 0>>
LoadSpec(isNull, mem) ==
  IF isNull THEN Err("Memory(Null)")
  ELSE LET T == U32At(mem, 0) IN
       IF T < 8 THEN Err("Memory(ShorterThanHeader)")
       ELSE IF T % 8 # 0 THEN Err("Memory(MissingPadding)")
       ELSE IF Bytes(mem, T - 8, 8) # EndTagBytes THEN Err("NoEndTag")
       ELSE Ok([start |-> 0, end |-> T, ptr |-> 0, total |-> T])

AcceptLoad(isNull, mem, o) ==
  LET s == LoadSpec(isNull, mem) IN
  IF s.k = "err" THEN o.k = "err" /\ o.e = s.e
  ELSE o.k = "ok" /\ o.v.start = 0 /\ o.v.end = s.v.end /\ o.v.ptr = 0 /\ o.v.total = s.v.total

\* reference design: null check; ref_from_ptr (slice of the declared total size, then
\* ref_from_slice on it); end-tag check on the last 8 bytes of the declared region
\* (EndTagAliasesHeader: for T = 8 those are the header's own bytes).
DesignLoad(isNull, mem) ==
  IF isNull THEN Err("Memory(Null)")
  ELSE LET T == U32At(mem, 0)
           r == DesignRefFromSlice(HBI, T, 0, T) IN
       IF r.k = "err" THEN Err("Memory(" \o r.e \o ")")
       ELSE IF r.k = "panic" THEN Panic
       ELSE IF U32At(mem, T - 8) = 0 /\ U32At(mem, T - 4) = 8
            THEN Ok([start |-> 0, end |-> T, ptr |-> 0, total |-> T])
            ELSE Err("NoEndTag")

Loadable(mem) == Len(mem) >= 8 /\ LoadSpec(FALSE, mem).k = "ok"
InfoWalk(mem) == WalkFrom(mem, 8, U32At(mem, 0), <<>>)

ModuleTyp == <<3, 0, 0, 0>>
ModuleBase == 16
\* The module iterator: the module-typed tags of the walk, in order.  A module tag smaller
\* than its fixed part (16) cannot be viewed as a module tag: that next() panics (C05).
\* Whether iteration goes on after such a panic is not specified: afterwards both the
\* continuation with the following module and panic / none are accepted.
ModItems(w) == ItemsOfType(w, ModuleTyp)
\* k = module-typed items consumed so far (yielded or rejected by a panic); cp = a rejection happened
AcceptTagNextMod(w, k, cp, dead, o) ==
  LET ms == ModItems(w)
      cont == IF k < Len(ms) THEN
                 IF ms[k + 1].size < ModuleBase THEN o.k = "panic"
                 ELSE /\ o.k = "some" /\ o.v.at = ms[k + 1].at
                      /\ o.v.size = U32Bytes(ms[k + 1].size) /\ o.v.sv = RoundUp8(ms[k + 1].size)
              ELSE IF w.fin = "none" THEN o.k = "none" ELSE o.k = "panic" IN
  IF dead THEN o.k \in {"panic", "none"}
  ELSE IF cp THEN cont \/ o.k \in {"panic", "none"}
  ELSE cont

\* ======================================================================================
\* Tag kinds of the boot information (Multiboot2 specification 3.6)
\* ======================================================================================
\* field: name, offset from the tag start, stored width, width of the accessor's return type
F(n, off, w, rw) == [n |-> n, off |-> off, w |-> w, rw |-> rw]
\* sized kind: wire = exact byte count of the tag; the Rust struct occupies RoundUp8(wire)
SizedK(id, wire, fields) ==
  [id |-> id, dst |-> FALSE, wire |-> wire, base |-> wire, elem |-> 1, fields |-> fields]
\* dynamically sized kind: fixed part `base`, then elements of `elem` bytes up to the tag size
DstK(id, base, elem, fields) ==
  [id |-> id, dst |-> TRUE, wire |-> base, base |-> base, elem |-> elem, fields |-> fields]

VbeCtrl == 16      \* offset of the 512-byte VBE control information inside the tag
VbeMode == 528     \* offset of the 256-byte VBE mode information
VbeFields == <<
  F("mode", 8, 2, 2), F("interface_segment", 10, 2, 2), F("interface_offset", 12, 2, 2),
  F("interface_length", 14, 2, 2),
  F("ci.signature", VbeCtrl + 0, 4, 4), F("ci.version", VbeCtrl + 4, 2, 2),
  F("ci.oem_string_ptr", VbeCtrl + 6, 4, 4), F("ci.capabilities", VbeCtrl + 10, 4, 4),
  F("ci.mode_list_ptr", VbeCtrl + 14, 4, 4), F("ci.total_memory", VbeCtrl + 18, 2, 2),
  F("ci.oem_software_revision", VbeCtrl + 20, 2, 2), F("ci.oem_vendor_name_ptr", VbeCtrl + 22, 4, 4),
  F("ci.oem_product_name_ptr", VbeCtrl + 26, 4, 4), F("ci.oem_product_revision_ptr", VbeCtrl + 30, 4, 4),
  F("mi.mode_attributes", VbeMode + 0, 2, 2), F("mi.window_a_attributes", VbeMode + 2, 1, 1),
  F("mi.window_b_attributes", VbeMode + 3, 1, 1), F("mi.window_granularity", VbeMode + 4, 2, 2),
  F("mi.window_size", VbeMode + 6, 2, 2), F("mi.window_a_segment", VbeMode + 8, 2, 2),
  F("mi.window_b_segment", VbeMode + 10, 2, 2), F("mi.window_function_ptr", VbeMode + 12, 4, 4),
  F("mi.pitch", VbeMode + 16, 2, 2), F("mi.resolution.0", VbeMode + 18, 2, 2),
  F("mi.resolution.1", VbeMode + 20, 2, 2), F("mi.character_size.0", VbeMode + 22, 1, 1),
  F("mi.character_size.1", VbeMode + 23, 1, 1), F("mi.number_of_planes", VbeMode + 24, 1, 1),
  F("mi.bpp", VbeMode + 25, 1, 1), F("mi.number_of_banks", VbeMode + 26, 1, 1),
  F("mi.memory_model", VbeMode + 27, 1, 1), F("mi.bank_size", VbeMode + 28, 1, 1),
  F("mi.number_of_image_pages", VbeMode + 29, 1, 1),
  F("mi.red_field.size", VbeMode + 31, 1, 1), F("mi.red_field.position", VbeMode + 32, 1, 1),
  F("mi.green_field.size", VbeMode + 33, 1, 1), F("mi.green_field.position", VbeMode + 34, 1, 1),
  F("mi.blue_field.size", VbeMode + 35, 1, 1), F("mi.blue_field.position", VbeMode + 36, 1, 1),
  F("mi.reserved_field.size", VbeMode + 37, 1, 1), F("mi.reserved_field.position", VbeMode + 38, 1, 1),
  F("mi.direct_color_attributes", VbeMode + 39, 1, 1), F("mi.framebuffer_base_ptr", VbeMode + 40, 4, 4),
  F("mi.offscreen_memory_offset", VbeMode + 44, 4, 4), F("mi.offscreen_memory_size", VbeMode + 48, 2, 2) >>

InfoKindNames == {"end", "cmdline", "bootloader", "module", "meminfo", "bootdev", "mmap", "vbe",
                  "framebuffer", "elf", "apm", "efi32", "efi64", "smbios", "rsdpv1", "rsdpv2",
                  "network", "efi_mmap", "efi_bs", "efi32_ih", "efi64_ih", "load_base_addr"}

InfoKind(name) ==
  CASE name = "end"        -> SizedK(0, 8, <<>>)
    [] name = "cmdline"    -> DstK(1, 8, 1, <<>>)
    [] name = "bootloader" -> DstK(2, 8, 1, <<F("typ()", 0, 4, 4), F("size()", 4, 4, 8)>>)
    [] name = "module"     -> DstK(3, 16, 1, <<F("start_address", 8, 4, 4), F("end_address", 12, 4, 4)>>)
    [] name = "meminfo"    -> SizedK(4, 16, <<F("memory_lower", 8, 4, 4), F("memory_upper", 12, 4, 4)>>)
    [] name = "bootdev"    -> SizedK(5, 20, <<F("biosdev", 8, 4, 4), F("slice", 12, 4, 4), F("part", 16, 4, 4)>>)
    [] name = "mmap"       -> DstK(6, 16, 24, <<F("entry_size", 8, 4, 4), F("entry_version", 12, 4, 4)>>)
    [] name = "vbe"        -> SizedK(7, 784, VbeFields)
    [] name = "framebuffer" -> DstK(8, 32, 1, <<F("address", 8, 8, 8), F("pitch", 16, 4, 4), F("width", 20, 4, 4),
                                                F("height", 24, 4, 4), F("bpp", 28, 1, 1)>>)
    [] name = "elf"        -> DstK(9, 20, 1, <<F("number_of_sections", 8, 4, 4), F("entry_size", 12, 4, 4),
                                              F("shndx", 16, 4, 4)>>)
    [] name = "apm"        -> SizedK(10, 28, <<F("version", 8, 2, 2), F("cseg", 10, 2, 2), F("offset", 12, 4, 4),
                                              F("cset_16", 16, 2, 2), F("dseg", 18, 2, 2), F("flags", 20, 2, 2),
                                              F("cseg_len", 22, 2, 2), F("cseg_16_len", 24, 2, 2),
                                              F("dseg_len", 26, 2, 2)>>)
    [] name = "efi32"      -> SizedK(11, 12, <<F("sdt_address", 8, 4, 8)>>)
    [] name = "efi64"      -> SizedK(12, 16, <<F("sdt_address", 8, 8, 8)>>)
    [] name = "smbios"     -> DstK(13, 16, 1, <<F("major", 8, 1, 1), F("minor", 9, 1, 1)>>)
    [] name = "rsdpv1"     -> SizedK(14, 28, <<F("revision", 23, 1, 1), F("rsdt_address", 24, 4, 8)>>)
    [] name = "rsdpv2"     -> SizedK(15, 44, <<F("revision", 23, 1, 1), F("xsdt_address", 32, 8, 8),
                                              F("ext_checksum", 40, 1, 1)>>)
    [] name = "network"    -> DstK(16, 8, 1, <<>>)
    [] name = "efi_mmap"   -> DstK(17, 16, 1, <<>>)
    [] name = "efi_bs"     -> SizedK(18, 8, <<>>)
    [] name = "efi32_ih"   -> SizedK(19, 12, <<F("image_handle", 8, 4, 8)>>)
    [] name = "efi64_ih"   -> SizedK(20, 16, <<F("image_handle", 8, 8, 8)>>)
    [] name = "load_base_addr" -> SizedK(21, 12, <<F("load_base_addr", 8, 4, 4)>>)

HdrFields == <<F("typ", 0, 4, 4), F("size", 4, 4, 4)>>
FieldsOf(K) == HdrFields \o K.fields
FieldNamed(K, n) == LET S == {i \in 1..Len(FieldsOf(K)) : FieldsOf(K)[i].n = n} IN
                    IF S = {} THEN [n |-> "?", off |-> 0, w |-> 0, rw |-> 0] ELSE FieldsOf(K)[CHOOSE i \in S : TRUE]

\* table sanity (checked by TLC in MC_Tables): fields inside the fixed part, pairwise disjoint
FieldsWellFormed(K) ==
  /\ \A i \in 1..Len(K.fields) : (K.fields[i].off >= 8 \/ K.id = 2) /\ K.fields[i].off + K.fields[i].w <= K.base
                                 /\ K.fields[i].rw >= K.fields[i].w
  /\ \A i, j \in 1..Len(K.fields) :
        i < j => \/ K.fields[i].off + K.fields[i].w <= K.fields[j].off
                 \/ K.fields[j].off + K.fields[j].w <= K.fields[i].off
                 \/ (K.id = 2)                      \* bootloader: typ()/size() re-read the header

\* ---- typed getters (C04 / C05 / C15) ---------------------------------------------------
\* first tag of type number id in walk order; the getter panics iff the walk panics first
FindSpecT(w, typ4) ==
  LET i == FirstOfType(w, typ4) IN
  IF i > 0 THEN [k |-> "found", it |-> w.items[i]]
  ELSE IF w.fin = "panic" THEN [k |-> "panic"] ELSE [k |-> "absent"]
FindSpec(w, id) == FindSpecT(w, U32Bytes(id))

\* what viewing walk item `it` as kind K must do:  "must" (a view), "panic", or "free" (either)
ViewSpec(K, it) ==
  IF K.dst THEN (IF it.size < K.base \/ (it.size - K.base) % K.elem # 0 THEN "panic" ELSE "must")
  ELSE IF it.size = K.wire THEN "must" ELSE "free"

IsView(o, it) == o.k = "some" /\ o.v.at = it.at /\ o.v.sv = RoundUp8(it.size)
ViewRec(it) == [at |-> it.at, sv |-> RoundUp8(it.size)]

\* the abstract result of a plain typed getter:  [k: absent | panic | must | free, it]
GetSpec(mem, name) ==
  LET K == InfoKind(name)  f == FindSpec(InfoWalk(mem), K.id) IN
  IF f.k # "found" THEN f
  ELSE LET vs == ViewSpec(K, f.it) IN
       IF vs = "panic" THEN [k |-> "panic"] ELSE [k |-> vs, it |-> f.it]

\* ---- framebuffer type decoding ------------------------------------------------------------
FbBase == 32
\* result of buffer_type() on framebuffer item `it`
FbTypeSpec(mem, it) ==
  LET b == mem[it.at + 29 + 1]
      blen == it.size - FbBase IN
  IF b >= 3 THEN [k |-> "err", v |-> <<b>>]
  ELSE IF b = 2 THEN Ok([t |-> "text"])
  ELSE IF b = 1 THEN (IF blen < 6 THEN Panic ELSE Ok([t |-> "rgb", v |-> Bytes(mem, it.at + FbBase, 6)]))
  ELSE IF blen < 2 THEN Panic
       ELSE LET n == U16At(mem, it.at + FbBase) IN
            IF 2 + 3 * n > blen THEN Panic            \* a palette must lie inside the tag (C01)
            ELSE Ok([t |-> "indexed", at |-> it.at + FbBase + 2, n |-> n, len |-> 3 * n])

AcceptFbType(s, o) ==
  CASE s.k = "panic" -> o.k = "panic"
    [] s.k = "err" -> o.k = "err" /\ (o.v = s.v \/ o.v = <<>>)     \* <<>>: the byte is not observable
    [] OTHER -> /\ o.k = "ok" /\ o.v.t = s.v.t
                /\ (s.v.t = "rgb" => o.v.v = s.v.v)
                /\ (s.v.t = "indexed" => o.v.at = s.v.at /\ o.v.n = s.v.n /\ o.v.len = s.v.len)

\* ---- strings (C17) ----------------------------------------------------------------------------
\* b = the bytes [base, size) of the tag
StrSpec(b, strAt) ==
  LET z == FirstNul(b) IN
  IF z = 0 THEN Err("MissingNul")
  ELSE IF ~Utf8Valid(SubSeq(b, 1, z - 1)) THEN Err("Utf8")
  ELSE Ok([at |-> strAt, len |-> z - 1])
AcceptStr(s, o) ==
  IF s.k = "err" THEN o.k = "err" /\ o.e = s.e
  ELSE o.k = "ok" /\ o.v.at = s.v.at /\ o.v.len = s.v.len

\* ---- memory map (C04) -----------------------------------------------------------------------
AreaSize == 24
MmapAreasSpec(mem, it) ==
  IF Bytes(mem, it.at + 8, 4) # U32Bytes(AreaSize) THEN Panic
  ELSE [k |-> "ref", at |-> it.at + 16, n |-> (it.size - 16) \div AreaSize, len |-> it.size - 16]
AcceptRef(s, o) ==
  IF s.k = "panic" THEN o.k = "panic"
  ELSE o.k = "ref" /\ o.at = s.at /\ o.n = s.n /\ o.len = s.len

\* ---- RSDP checksums ------------------------------------------------------------------------------
BoolVal(b) == Val(<<IF b THEN 1 ELSE 0>>)
RsdpV1Len == 20
RsdpV2Max == 36
\* ======================================================================================
\* C18: EFI memory map
\* ======================================================================================
EfiDescSize == 40
\* parameters of EFI memory-map item `it`: descriptor size d, version v, map length L
\* (d saturates at Far; its residue modulo 8 is taken from the low byte, dlow)
EfiParams(mem, it) == [d |-> U32At(mem, it.at + 8), dlow |-> Bytes(mem, it.at + 8, 1)[1], v |-> U32At(mem, it.at + 12), L |-> it.size - 16]
EfiValid(p) == p.v = 1 /\ p.d >= EfiDescSize /\ p.dlow % 8 = 0 /\ p.L % p.d = 0
EfiCount(p) == p.L \div p.d
\* i-th descriptor (0-based): the 40 bytes at map offset i * d
EfiItem(mem, it, p, i) ==
  LET a == it.at + 16 + i * p.d IN
  [at |-> a, al |-> 0, ty |-> Bytes(mem, a, 4), phys_start |-> Bytes(mem, a + 8, 8),
   virt_start |-> Bytes(mem, a + 16, 8), page_count |-> Bytes(mem, a + 24, 8), att |-> Bytes(mem, a + 32, 8)]
IsEfiItem(o, x) ==
  /\ o.k = "some" /\ o.v.at = x.at /\ o.v.al = 0 /\ o.v.ty = x.ty /\ o.v.phys_start = x.phys_start
  /\ o.v.virt_start = x.virt_start /\ o.v.page_count = x.page_count /\ o.v.att = x.att
U64Bytes(n) == U32Bytes(n) \o <<0, 0, 0, 0>>
\* items still to come when k have been consumed (nth may have run past the end)
EfiRem(p, k) == IF k <= EfiCount(p) THEN EfiCount(p) - k ELSE 0
\* k = items yielded so far
AcceptEfiNext(mem, it, k, dead, o) ==
  LET p == EfiParams(mem, it) IN
  IF ~EfiValid(p) THEN o.k = "panic" \/ (dead /\ o.k = "none")       \* never an item
  ELSE IF dead THEN o.k \in {"panic", "none"}
  ELSE IF k < EfiCount(p) THEN IsEfiItem(o, EfiItem(mem, it, p, k))
  ELSE o.k = "none"
AcceptEfiLen(mem, it, k, dead, o) ==
  LET p == EfiParams(mem, it) IN
  IF ~EfiValid(p) THEN o.k = "panic"
  ELSE dead \/ IsVal(o, U64Bytes(EfiRem(p, k)))
\* size_hint is a bound, not "the remaining length it reports": any correct bound is accepted
LE8Small(b) == IF b[5] = 0 /\ b[6] = 0 /\ b[7] = 0 /\ b[8] = 0 THEN LE4(SubSeq(b, 1, 4)) ELSE Far
AcceptEfiHint(mem, it, k, dead, o) ==
  LET p == EfiParams(mem, it) IN
  IF ~EfiValid(p) THEN o.k \in {"panic", "hint"}
  ELSE dead \/ (o.k = "hint" /\ LE8Small(o.lo) <= EfiRem(p, k)
                /\ (o.hi.k = "none" \/ LE8Small(o.hi.v) >= EfiRem(p, k)))

\* reference design: memory_areas() asserts the version; the iterator constructor asserts
\* d >= 40, d % 8 = 0 and L % d = 0 and fixes entries = L / d; next() reads entry i at i * d
DesignEfiNew(mem, it) ==
  LET p == EfiParams(mem, it) IN
  IF p.v # 1 THEN Panic
  ELSE IF p.d < EfiDescSize \/ p.dlow % 8 # 0 THEN Panic
  ELSE IF p.L % p.d # 0 THEN Panic
  ELSE Ok([entries |-> p.L \div p.d, d |-> p.d])
DesignEfiNext(mem, it, st) ==      \* st = [i, entries, d]
  IF st.i >= st.entries THEN [o |-> None, st |-> st]
  ELSE [o |-> Some(EfiItem(mem, it, [d |-> st.d], st.i)), st |-> [st EXCEPT !.i = st.i + 1]]

\* ======================================================================================
\* C19: ELF sections
\* ======================================================================================
ElfBase == 20
ElfParams(mem, it) == [n |-> U32At(mem, it.at + 8), es |-> U32At(mem, it.at + 12),
                       shndx |-> U32At(mem, it.at + 16), len |-> it.size - ElfBase]
\* a * b <= len without leaving TLC's integers
MulFits(a, b, len) == a = 0 \/ b = 0 \/ (a <= len /\ b <= len /\ a * b <= len)
ElfFits(p) == MulFits(p.n, p.es, p.len) /\ (p.n = 0 \/ (p.shndx < Far /\ MulFits(p.shndx + 1, p.es, p.len)))
\* raw section type (4 bytes LE) is one of the recognised in-use types
ElfInUse(b) == (b[4] = 0 /\ b[3] = 0 /\ b[2] = 0 /\ b[1] >= 1 /\ b[1] <= 11) \/ (b[4] >= 96 /\ b[4] <= 127)
ElfTypeDisc(b) == IF b[4] >= 96 /\ b[4] <= 111 THEN <<0, 0, 0, 96>>
                  ELSE IF b[4] >= 112 /\ b[4] <= 127 THEN <<0, 0, 0, 112>> ELSE b
\* decoded entry i (0-based) by the layout the entry size selects
ElfEntry(mem, it, p, i) ==
  LET a == it.at + ElfBase + i * p.es
      raw == Bytes(mem, a + 4, 4)
      fl == IF p.es = 40 THEN ZExt(Bytes(mem, a + 8, 4), 8) ELSE Bytes(mem, a + 8, 8) IN
  [raw |-> raw, typ |-> ElfTypeDisc(raw),
   flags |-> <<fl[1] % 8, 0, 0, 0, 0, 0, 0, 0>>,          \* from_bits_truncate: WRITABLE | ALLOCATED | EXECUTABLE
   addr |-> IF p.es = 40 THEN ZExt(Bytes(mem, a + 12, 4), 8) ELSE Bytes(mem, a + 16, 8),
   size |-> IF p.es = 40 THEN ZExt(Bytes(mem, a + 20, 4), 8) ELSE Bytes(mem, a + 32, 8),
   addralign |-> IF p.es = 40 THEN ZExt(Bytes(mem, a + 32, 4), 8) ELSE Bytes(mem, a + 48, 8),
   alloc |-> (fl[1] \div 2) % 2,
   name_index |-> U32At(mem, a)]
ElfStrAddr(mem, it, p) ==        \* the address field of the string-table entry
  LET a == it.at + ElfBase + p.shndx * p.es IN
  IF p.es = 40 THEN ZExt(Bytes(mem, a + 12, 4), 8) ELSE Bytes(mem, a + 16, 8)
ElfItems(mem, it, p) ==
  SelectSeq([i \in 1..p.n |-> ElfEntry(mem, it, p, i - 1)], LAMBDA e : ElfInUse(e.raw))
IsElfItem(o, e) ==
  /\ o.k = "some" /\ o.v.raw = e.raw /\ o.v.typ = e.typ /\ o.v.flags = e.flags /\ o.v.addr = e.addr
  /\ o.v.size = e.size /\ o.v.addralign = e.addralign /\ o.v.alloc = e.alloc
  \* end address = start + size; when that leaves 64 bits the value is unspecified (but controlled)
  /\ (Has(o.v, "end") => IF CarryOut(e.addr, e.size, 0) = 1 THEN o.v.end.k \in {"panic", "val"}
                         ELSE o.v.end = Val(AddLE(e.addr, e.size, 0)))
\* name: the NUL-terminated string at ext.data[name_index ..]
ElfNameSpec(ext, e) ==
  IF e.name_index >= Len(ext.data) THEN [k |-> "free"]
  ELSE LET tail == SubSeq(ext.data, e.name_index + 1, Len(ext.data))  z == FirstNul(tail) IN
       IF z = 0 THEN [k |-> "free"]
       ELSE IF Utf8Valid(SubSeq(tail, 1, z - 1)) THEN Ok([eat |-> e.name_index, len |-> z - 1]) ELSE Err("Utf8")
AcceptElfNext(mem, it, ext, k, dead, o) ==
  LET p == ElfParams(mem, it) IN
  IF ~ElfFits(p) THEN o.k = "panic" \/ (dead /\ o.k = "none")            \* rejected, never read
  ELSE IF p.es \notin {40, 64} THEN o.k \in {"panic", "none", "some"}    \* free apart from C01
  ELSE IF dead THEN o.k \in {"panic", "none"}
  ELSE LET xs == ElfItems(mem, it, p) IN
       IF k < Len(xs) THEN
          /\ IsElfItem(o, xs[k + 1])
          /\ (Has(o.v, "name") /\ ext.k = "ext" /\ ElfStrAddr(mem, it, p) = ext.addr) =>
               LET ns == ElfNameSpec(ext, xs[k + 1]) IN
               CASE ns.k = "free" -> TRUE
                 [] ns.k = "err" -> o.v.name.k = "err"
                 [] OTHER -> o.v.name.k = "ok" /\ o.v.name.v.eat = ns.v.eat /\ o.v.name.v.len = ns.v.len
       ELSE o.k = "none"
\* reference design: sections() asserts both bounds; next() walks entry by entry, skipping unused ones
DesignElfNew(mem, it) ==
  LET p == ElfParams(mem, it) IN IF ElfFits(p) THEN Ok(p) ELSE Panic
RECURSIVE DesignElfNext(_, _, _, _)
DesignElfNext(mem, it, p, st) ==     \* st = [i] : next entry index
  IF st.i >= p.n THEN [o |-> None, st |-> st]
  ELSE IF p.es \notin {40, 64} THEN [o |-> Panic, st |-> [i |-> st.i + 1]]     \* "Unexpected entry size"
  ELSE LET e == ElfEntry(mem, it, p, st.i) IN
       IF ElfInUse(e.raw) THEN [o |-> Some(e), st |-> [i |-> st.i + 1]]
       ELSE DesignElfNext(mem, it, p, [i |-> st.i + 1])
\* ---- tiled regions: a very large number of small tags (C01 / C03 / C19) ------------------------------------------------
\* The walk is a loop over stored sizes: neither the number of tags nor the number of tags an iterator skips between
\* two items is limited by anything but the region.  A tiled region t = [v, n] is
\*   v = "info": header | module tag | n tags of type 99, size 8 | module tag | end tag
\*   v = "elf" : header | ELF-sections tag with n unused (all-zero) 40-byte entries | end tag
\* It is given structurally (memx with a tile pattern); what each call of the fixed plan returns follows from n alone.
TileTag == <<99, 0, 0, 0, 8, 0, 0, 0>>
TileModule(a) == U32Bytes(3) \o U32Bytes(17) \o a \o a \o <<0>> \o <<0, 0, 0, 0, 0, 0, 0>>          \* 17 bytes, padded to 24
TileLen(t) == IF t.v = "info" THEN 8 + 24 + 8 * t.n + 24 + 8 ELSE 8 + RoundUp8(20 + 40 * t.n) + 8
TileMemx(t) ==
  LET L == TileLen(t)  hdr == [off |-> 0, b |-> U32Bytes(L) \o <<0, 0, 0, 0>>]  endt == [off |-> L - 8, b |-> EndTagBytes] IN
  IF t.v = "info"
  THEN [len |-> L, fill |-> 0, tile |-> TileTag,
        patch |-> <<hdr, [off |-> 8, b |-> TileModule(<<1, 0, 0, 0>>)], [off |-> L - 32, b |-> TileModule(<<2, 0, 0, 0>>)], endt>>]
  ELSE [len |-> L, fill |-> 0, tile |-> <<0>>,
        patch |-> <<hdr, [off |-> 8, b |-> U32Bytes(9) \o U32Bytes(20 + 40 * t.n) \o U32Bytes(t.n) \o U32Bytes(40) \o U32Bytes(0)], endt>>]
\* calls carry what they are applied to ("of") and, for next(), how many calls went before on that iterator ("k")
TileExpect(t, call) ==
  LET L == TileLen(t) IN
  CASE call.op = "load" -> Ok([start |-> 0, end |-> L, ptr |-> 0, total |-> L])
    [] call.op \in {"tags", "module_tags", "elf_sections", "dbg"} -> Unit
    [] call.op = "count" -> Val(U64Bytes(CASE call.of = "tags" -> t.n + 3 [] call.of = "mods" -> 2 [] OTHER -> 0))
    [] call.op = "last" -> Some([at |-> L - 8, sv |-> 8])
    [] call.op = "nth" -> Some([at |-> 8 + 24 + 8 * (call.n - 1), sv |-> 8])                  \* 1 <= call.n <= t.n: a filler tag
    [] call.op = "next" /\ call.of = "mods" ->
         (CASE call.k = 0 -> Some([at |-> 8, size |-> U32Bytes(17), sv |-> 24])
            [] call.k = 1 -> Some([at |-> L - 32, size |-> U32Bytes(17), sv |-> 24])
            [] OTHER -> None)
    [] call.op = "next" -> None                                                               \* ELF: every entry is unused
=============================================================================
