------------------------------- MODULE MB2Info -------------------------------
(***************************************************************************)
(* multiboot2: the boot information structure: loading (C02), walking      *)
(* (C03), typed getters and field decoding (C04), variable-length extents  *)
(* (C05), strings (C17), EFI memory map (C18), ELF sections (C19).         *)
(***************************************************************************)
EXTENDS MB2Common

\* ---- C02: loading -------------------------------------------------------------
\* mem is the declared region: Len(mem) >= declared total size whenever that is < Far
EndTagBytes == <<0, 0, 0, 0, 8, 0, 0, 0>>
LoadSpec(isNull, mem) ==
  IF isNull THEN Err("Memory(Null)")
  ELSE LET T == U32At(mem, 0) IN
       IF T < 8 THEN Err("Memory(ShorterThanHeader)")
       ELSE IF T % 8 # 0 THEN Err("Memory(MissingPadding)")
       ELSE IF Bytes(mem, T - 8, 8) # EndTagBytes THEN Err("NoEndTag")
       ELSE Ok([start |-> 0, end |-> T, ptr |-> 0, total |-> T])

AcceptLoad(isNull, mem, o) ==
  LET s == LoadSpec(isNull, mem) IN
  IF s.k = "err" THEN o.k = "err" /\ o.e = s.e
  ELSE o.k = "ok" /\ o.v.start = 0 /\ o.v.end = s.v.end /\ o.v.ptr = 0 /\ o.v.total = s.v.total

\* reference design: null check; ref_from_ptr (slice of the declared total size, then
\* ref_from_slice on it); end-tag check on the last 8 bytes of the declared region
\* (EndTagAliasesHeader: for T = 8 those are the header's own bytes).
DesignLoad(isNull, mem) ==
  IF isNull THEN Err("Memory(Null)")
  ELSE LET T == U32At(mem, 0)
           r == DesignRefFromSlice(HBI, T, 0, T) IN
       IF r.k = "err" THEN Err("Memory(" \o r.e \o ")")
       ELSE IF r.k = "panic" THEN Panic
       ELSE IF U32At(mem, T - 8) = 0 /\ U32At(mem, T - 4) = 8
            THEN Ok([start |-> 0, end |-> T, ptr |-> 0, total |-> T])
            ELSE Err("NoEndTag")

Loadable(mem) == Len(mem) >= 8 /\ LoadSpec(FALSE, mem).k = "ok"
InfoWalk(mem) == WalkFrom(mem, 8, U32At(mem, 0), <<>>)

ModuleTyp == <<3, 0, 0, 0>>
ModuleBase == 16
\* The module iterator: the module-typed tags of the walk, in order.  A module tag smaller
\* than its fixed part (16) cannot be viewed as a module tag: that next() panics (C05).
\* Whether iteration goes on after such a panic is not specified: afterwards both the
\* continuation with the following module and panic / none are accepted.
ModItems(w) == ItemsOfType(w, ModuleTyp)
\* k = module-typed items consumed so far (yielded or rejected by a panic); cp = a rejection happened
AcceptTagNextMod(w, k, cp, dead, o) ==
  LET ms == ModItems(w)
      cont == IF k < Len(ms) THEN
                 IF ms[k + 1].size < ModuleBase THEN o.k = "panic"
                 ELSE /\ o.k = "some" /\ o.v.at = ms[k + 1].at
                      /\ o.v.size = U32Bytes(ms[k + 1].size) /\ o.v.sv = RoundUp8(ms[k + 1].size)
              ELSE IF w.fin = "none" THEN o.k = "none" ELSE o.k = "panic" IN
  IF dead THEN o.k \in {"panic", "none"}
  ELSE IF cp THEN cont \/ o.k \in {"panic", "none"}
  ELSE cont
=============================================================================
