SPECIFICATION MCSpec
CONSTANT Params <- FbParams
CONSTANT MkCase <- FbCase
INVARIANT DesignAccepted
INVARIANT DesignControlled
INVARIANT Export
PROPERTY Terminates
CHECK_DEADLOCK FALSE
