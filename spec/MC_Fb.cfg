SPECIFICATION MCSpec
CONSTANT Params <- FbParams
CONSTANT MkCase <- FbCase
CONSTANT MaxTags = 3
CONSTANT DstExtra = 9
INVARIANT DesignAccepted
INVARIANT DesignControlled
INVARIANT Export
PROPERTY Terminates
CHECK_DEADLOCK FALSE
