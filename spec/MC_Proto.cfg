SPECIFICATION MCSpec
CONSTANT Params <- ProtoParams
CONSTANT MkCase <- ProtoCase
CONSTANT Depth = 4
INVARIANT DesignAccepted
INVARIANT DesignControlled
INVARIANT Export
PROPERTY Terminates
CHECK_DEADLOCK FALSE
