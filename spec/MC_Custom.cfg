SPECIFICATION MCSpec
CONSTANT Params <- CustomParams
CONSTANT MkCase <- CustomCase
CONSTANT MaxSize = 96
INVARIANT DesignAccepted
INVARIANT DesignControlled
INVARIANT Export
PROPERTY Terminates
CHECK_DEADLOCK FALSE
