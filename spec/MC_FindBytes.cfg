SPECIFICATION MCSpec
CONSTANT Params <- FindBytesParams
CONSTANT MkCase <- FindBytesCase
CONSTANT SmallLen = 7
INVARIANT DesignAccepted
INVARIANT DesignControlled
INVARIANT Export
PROPERTY Terminates
CHECK_DEADLOCK FALSE
