------------------------------ MODULE MC_Custom ------------------------------
(***************************************************************************)
(* C15: a family of user-defined tag types x every tag size.               *)
(*   sized:  0..6 extra 32-bit words                                       *)
(*   DST:    fixed part 8,12,16,20,24 bytes x element (size, alignment) in *)
(*           (1,1) (2,2) (3,1) (4,4) (8,8) (24,8)                          *)
(* The design layer applies Rust's repr(C) layout rules (SizeOfVal) and    *)
(* the same-size assertion of cast; TLC checks that whatever passes the    *)
(* assertion satisfies the declarative statement.                          *)
(***************************************************************************)
EXTENDS MCInfoLib

CONSTANTS MaxSize

Elems == << [es |-> 1, ea |-> 1], [es |-> 2, ea |-> 2], [es |-> 3, ea |-> 1], [es |-> 4, ea |-> 4], [es |-> 8, ea |-> 8], [es |-> 24, ea |-> 8] >>
Num(n) == CASE n = 0 -> "0" [] n = 1 -> "1" [] n = 2 -> "2" [] n = 3 -> "3" [] n = 4 -> "4" [] n = 5 -> "5" [] n = 6 -> "6"
            [] n = 8 -> "8" [] n = 12 -> "12" [] n = 16 -> "16" [] n = 20 -> "20" [] n = 24 -> "24"
CustomTypes ==
  { [t |-> "s" \o Num(n), idx |-> n, sized |-> TRUE, words |-> n, fixed |-> 0, es |-> 0, ea |-> 0, sa |-> 8] : n \in 0..6 }
  \* sized types with a stricter alignment than the tags' 8 (repr(C, align(16)): 16 and 32 bytes)
  \* an under-aligned type without a TagHeader field (plain 32-bit words, repr(C): 20 bytes, alignment 4)
  \cup { [t |-> "u20", idx |-> 120, sized |-> TRUE, words |-> 3, fixed |-> 0, es |-> 0, ea |-> 0, sa |-> 4] }
  \cup { [t |-> "a16_" \o Num(n), idx |-> 112 + n, sized |-> TRUE, words |-> n, fixed |-> 0, es |-> 0, ea |-> 0, sa |-> 16] : n \in {2, 6} }
  \cup { [t |-> "d" \o Num(8 + 4 * f) \o "_" \o Num(Elems[e].es), idx |-> 16 + 16 * f + (e - 1), sized |-> FALSE, words |-> 0,
          fixed |-> 8 + 4 * f, es |-> Elems[e].es, ea |-> Elems[e].ea, sa |-> 8] : f \in 0..4, e \in 1..6 }
CustomParams == { [ty |-> ty, size |-> s, extra |-> -1] : ty \in CustomTypes, s \in 8..MaxSize }
                \* the other public route to a typed view: ref_from_slice on a caller's slice (which may continue behind
                \* the tag), then cast - the view still has the tag's rounded size, never the slice's
                \cup { [ty |-> ty, size |-> s, extra |-> x] : ty \in {t \in CustomTypes : t.sized /\ t.sa = 8}, s \in 0..48, x \in {0, 8, 16, 24} }
                \* two tags of the type's ID, the first too small for the type: the getter is about the FIRST tag of that ID
                \cup { [ty |-> ty, size |-> s, extra |-> -2, size2 |-> 8 + 4 * ty.words] : ty \in {t \in CustomTypes : t.sized /\ t.sa = 8 /\ t.words >= 1},
                                                                                       s \in {8, 9, 12} }
Lead8 == U32Bytes(98) \o U32Bytes(8)
SliceCase(p) ==
  LET id == U32Bytes(4096 + p.ty.idx)
      n == RoundUp8(Max(p.size, 8)) + p.extra
      mem == [i \in 1..n |-> IF i <= 4 THEN id[i] ELSE IF i <= 8 THEN U32Bytes(p.size)[i - 4] ELSE FillA(i - 1)] IN
  [mem |-> mem, al |-> 0, calls |-> <<[op |-> "slice_cast"] @@ p.ty>>,
   desc |-> [area |-> "custom", t |-> p.ty.t, size |-> p.size, extra |-> p.extra]]
DupCase(p) ==
  LET id == U32Bytes(4096 + p.ty.idx)
      tg(sz) == [i \in 1..RoundUp8(sz) |-> IF i <= 4 THEN id[i] ELSE IF i <= 8 THEN U32Bytes(sz)[i - 4] ELSE IF i <= sz THEN FillA(i - 1) ELSE PadByte] IN
  [mem |-> InfoImage(<<tg(p.size), tg(p.size2), Neighbour>>), al |-> 0,
   calls |-> <<[op |-> "load"], [op |-> "custom_get", id |-> id] @@ p.ty>>,
   desc |-> [area |-> "custom", t |-> p.ty.t, size |-> p.size, dup |-> p.size2]]
CustomCase(p) ==
  IF p.extra = -2 THEN DupCase(p) ELSE
  IF p.extra >= 0 THEN SliceCase(p) ELSE
  LET id == U32Bytes(4096 + p.ty.idx)
      tag == [i \in 1..RoundUp8(p.size) |-> IF i <= 4 THEN id[i] ELSE IF i <= 8 THEN U32Bytes(p.size)[i - 4]
                                           ELSE IF i <= p.size THEN FillA(i - 1) ELSE PadByte] IN
  \* a 16-aligned type is only ever looked for at a 16-aligned address (anything else is the caller's misuse):
  \* an 8-byte tag in front puts the tag at offset 16, and the image length is kept a multiple of 16
  [mem |-> IF p.ty.sa = 8 THEN InfoImage(<<tag, Neighbour>>)
           ELSE InfoImage(<<Lead8, tag, Neighbour>> \o (IF (40 + RoundUp8(p.size)) % 16 = 0 THEN <<>> ELSE <<Lead8>>)), al |-> 0,
   calls |-> <<[op |-> "load"], [op |-> "custom_get", id |-> id] @@ p.ty>>,
   desc |-> [area |-> "custom", t |-> p.ty.t, size |-> p.size]]
=============================================================================
