------------------------------- MODULE MC_Adv -------------------------------
(***************************************************************************)
(* Adversarial field VALUES (C01 / C08): conformant sizes, hostile         *)
(* contents - arithmetic on stored fields that leaves its type, enum-typed *)
(* bytes outside their variants, sizes beyond 2^31.                        *)
(***************************************************************************)
EXTENDS MCInfoLib

MaxU64 == <<255, 255, 255, 255, 255, 255, 255, 255>>
AdvParams ==
  { [what |-> "module", a |-> a, b |-> b] : a \in {<<5, 0, 0, 0>>, <<255, 255, 255, 255>>}, b \in {<<3, 0, 0, 0>>, <<5, 0, 0, 0>>, <<0, 0, 0, 0>>} }
  \cup { [what |-> "mmap", a |-> a, b |-> b] : a \in {MaxU64, <<0, 240, 255, 255, 255, 255, 255, 255>>, <<0, 0, 0, 0, 0, 0, 0, 128>>},
                                              b \in {<<2, 0, 0, 0, 0, 0, 0, 0>>, <<0, 16, 0, 0, 0, 0, 0, 0>>, <<0, 0, 0, 0, 0, 0, 0, 128>>, MaxU64} }
  \cup { [what |-> "elf", a |-> a, b |-> b] : a \in {MaxU64, <<0, 0, 0, 0, 0, 0, 0, 128>>}, b \in {<<2, 0, 0, 0, 0, 0, 0, 0>>, <<0, 0, 0, 0, 0, 0, 0, 128>>} }
  \cup { [what |-> "vbe", a |-> <<m>>, b |-> <<>>] : m \in {7, 8, 9, 128, 200, 255} }
  \cup { [what |-> "elfhuge", a |-> n, b |-> es] : n \in {<<1, 0, 0, 4>>, <<0, 0, 0, 4>>, <<103, 102, 102, 6>>, <<255, 255, 255, 255>>, <<0, 0, 0, 128>>, <<1, 0, 0, 0>>},
                                                  es \in {<<64, 0, 0, 0>>, <<40, 0, 0, 0>>, <<0, 0, 0, 4>>, <<255, 255, 255, 255>>} }
  \* string-table indices / entry sizes whose product leaves 32 bits, with no or one section (c: the count)
  \cup { [what |-> "elfshndx", a |-> es, b |-> sh, c |-> n] : es \in {<<64, 0, 0, 0>>, <<0, 0, 1, 0>>, <<0, 0, 0, 1>>, <<0, 0, 0, 192>>, <<255, 255, 255, 255>>},
                                                             sh \in {<<0, 0, 1, 0>>, <<0, 0, 0, 4>>, <<1, 0, 0, 4>>, <<0, 0, 0, 192>>, <<255, 255, 255, 255>>}, n \in {0, 1} }
  \cup { [what |-> "fb64k", a |-> U16Bytes(nc), b |-> U32Bytes(bl)] : nc \in {21845, 21846, 30000, 65535}, bl \in {65534, 65540, 65600} }
  \cup { [what |-> "hugesize", a |-> a, b |-> <<>>] : a \in {<<248, 255, 255, 255>>, <<0, 0, 0, 128>>, <<255, 255, 255, 127>>, <<0, 0, 0, 64>>, <<1, 0, 0, 64>>} }
AdvTag(p) ==
  CASE p.what = "module" -> Override(Override(ConformantTag("module", 0), 8, p.a), 12, p.b)
    [] p.what = "mmap" -> Override(Override(ConformantTag("mmap", 0), 16, p.a), 24, p.b)
    [] p.what = "elf" ->     \* one ELF64 entry of type 1 whose address + size leave 64 bits
         U32Bytes(9) \o U32Bytes(20 + 64) \o U32Bytes(1) \o U32Bytes(64) \o U32Bytes(0)
         \o Override(Override(Override([j \in 1..64 |-> FillB(j)], 4, <<1, 0, 0, 0>>), 16, p.a), 32, p.b)
    [] p.what = "vbe" -> Override(ConformantTag("vbe", 0), 528 + 27, p.a)
    [] p.what = "elfhuge" ->     \* a count / entry size whose product leaves 32 bits, one real ELF64 entry behind it
         U32Bytes(9) \o U32Bytes(20 + 64) \o p.a \o p.b \o U32Bytes(0) \o Override([j \in 1..64 |-> FillB(j)], 4, <<1, 0, 0, 0>>)
    [] p.what = "elfshndx" ->
         U32Bytes(9) \o U32Bytes(20 + 64) \o U32Bytes(p.c) \o p.a \o p.b \o Override([j \in 1..64 |-> FillB(j)], 4, <<1, 0, 0, 0>>)
    [] p.what = "fb64k" ->       \* indexed framebuffer with a colour-info area of about 64 KiB and a colour count that may not fit
         LET bl == LE4(p.b) IN
         U32Bytes(8) \o U32Bytes(32 + bl) \o [i \in 1..21 |-> i] \o <<0, 0, 0>> \o p.a \o [i \in 1..(bl - 2) |-> i % 251]
    [] p.what = "hugesize" -> U32Bytes(1) \o p.a \o <<97, 0, 0, 0, 0, 0, 0, 0>>
AdvCalls(p) ==
  CASE p.what = "module" -> <<[op |-> "field", kind |-> "module", f |-> "module_size"], [op |-> "field", kind |-> "module", f |-> "start_address"],
                              [op |-> "str", kind |-> "module"], [op |-> "dbg", what |-> "modules"], [op |-> "dbg", what |-> "bi"]>>
    [] p.what = "mmap" -> <<[op |-> "area", i |-> 0, f |-> "end_address"], [op |-> "area", i |-> 0, f |-> "size"],
                            [op |-> "area", i |-> 1, f |-> "end_address"], [op |-> "dbg", what |-> "mmap"], [op |-> "dbg", what |-> "bi"]>>
    [] p.what = "elf" -> <<[op |-> "elf_sections", it |-> 0], [op |-> "next", it |-> 0, names |-> FALSE], [op |-> "next", it |-> 0, names |-> FALSE],
                           [op |-> "dbg", what |-> "elf"]>>
    [] p.what = "vbe" -> <<[op |-> "get", kind |-> "vbe"], [op |-> "field", kind |-> "vbe", f |-> "mi.bpp"],
                           [op |-> "field", kind |-> "vbe", f |-> "mi.memory_model"], [op |-> "dbg", what |-> "vbe"], [op |-> "dbg", what |-> "bi"]>>
    [] p.what = "elfhuge" -> <<[op |-> "elf_sections", it |-> 0], [op |-> "next", it |-> 0, names |-> FALSE], [op |-> "next", it |-> 0, names |-> FALSE],
                               [op |-> "elf_sections_deprecated", it |-> 1], [op |-> "next", it |-> 1, names |-> FALSE], [op |-> "dbg", what |-> "elf"]>>
    [] p.what = "elfshndx" -> <<[op |-> "elf_sections", it |-> 0], [op |-> "next", it |-> 0, names |-> FALSE], [op |-> "count", it |-> 0],
                                [op |-> "elf_sections_deprecated", it |-> 1], [op |-> "next", it |-> 1, names |-> FALSE], [op |-> "dbg", what |-> "elf"],
                                [op |-> "dbg", what |-> "bi"]>>
    [] p.what = "fb64k" -> <<[op |-> "get", kind |-> "framebuffer"], [op |-> "field", kind |-> "framebuffer", f |-> "buffer_type"],
                             [op |-> "dbg", what |-> "framebuffer"]>>
    [] p.what = "hugesize" -> <<[op |-> "tags", it |-> 0], [op |-> "next", it |-> 0], [op |-> "next", it |-> 0], [op |-> "get", kind |-> "cmdline"],
                                [op |-> "str", kind |-> "cmdline"], [op |-> "dbg", what |-> "bi"]>>
AdvCase(p) ==
  [mem |-> InfoImage(<<AdvTag(p), Neighbour>>), al |-> 0,
   calls |-> <<[op |-> "load"]>> \o AdvCalls(p),
   desc |-> [area |-> "adv"] @@ p]
=============================================================================
