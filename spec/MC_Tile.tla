------------------------------- MODULE MC_Tile -------------------------------
(***************************************************************************)
(* C01 / C03 / C19 (and C08 across the builds): regions with a very large  *)
(* number of small tags.  Nothing in the walk may be limited by a count or *)
(* by the depth of a recursion: the calls run on a thread with a small     *)
(* stack ("stack" bytes), so that a skip implemented by recursion overflows *)
(* it after a few thousand tags.                                           *)
(***************************************************************************)
EXTENDS MCBase
CONSTANTS TileNs, TileStack

TileParams == { [v |-> v, n |-> n] : v \in {"info", "elf"}, n \in TileNs }
TileCase(t) ==
  [mem |-> <<>>, memx |-> TileMemx(t), al |-> 0, tile |-> t, stack |-> TileStack,
   calls |-> IF t.v = "info"
             THEN <<[op |-> "load"],
                    [op |-> "tags", it |-> 0], [op |-> "count", it |-> 0, of |-> "tags"],
                    [op |-> "tags", it |-> 1], [op |-> "last", it |-> 1],
                    [op |-> "tags", it |-> 2], [op |-> "nth", it |-> 2, n |-> t.n],
                    [op |-> "module_tags", it |-> 3], [op |-> "next", it |-> 3, of |-> "mods", k |-> 0],
                    [op |-> "next", it |-> 3, of |-> "mods", k |-> 1], [op |-> "next", it |-> 3, of |-> "mods", k |-> 2],
                    [op |-> "module_tags", it |-> 4], [op |-> "count", it |-> 4, of |-> "mods"]>>
             ELSE <<[op |-> "load"], [op |-> "elf_sections", it |-> 0], [op |-> "count", it |-> 0, of |-> "elf"],
                    [op |-> "next", it |-> 0, of |-> "elf", k |-> 0], [op |-> "dbg", what |-> "elf"]>>,
   desc |-> [area |-> "tile"] @@ t]
=============================================================================
