------------------------------ MODULE MC_Dst ------------------------------
EXTENDS MCInfoLib
CONSTANTS DstExtra

\* ---- Dst corpus: every declared size of every variable-length kind ---------------------------------
DstKinds == {n \in InfoKindNames : InfoKind(n).dst}
DstSizes(name) == LET K == InfoKind(name) IN 0..(K.base + 3 * K.elem + DstExtra)
\* v: marker content, or all zeros (counts, strides, versions of zero take other paths through a decoder)
DstParams == UNION { { [kind |-> n, size |-> s, v |-> v] : s \in DstSizes(n), v \in {0, 2} } : n \in DstKinds }
             \cup { [kind |-> n, size |-> s, v |-> 0] : n \in DstKinds, s \in {200, 1000, 16777216} }
\* the tag is given room for min(size, 120) bytes; a size beyond that runs over the neighbour / the region
DstTagV(name, size, v) ==
  LET K == InfoKind(name)
      room == RoundUp8(Max(8, Min(size, 120)))
      t == [i \in 1..room |-> IF i <= 4 THEN U32Bytes(K.id)[i] ELSE IF i <= 8 THEN U32Bytes(size)[i - 4]
                              ELSE IF i <= size THEN Fill(v, i - 1) ELSE PadByte] IN
  CASE name = "mmap" -> Override(t, 8, U32Bytes(24))
    [] name = "framebuffer" -> IF room > 29 THEN Override(t, 29, <<2>>) ELSE t
    [] name \in {"cmdline", "bootloader", "module"} ->
         [i \in 1..room |-> IF i > K.base /\ i <= size THEN (IF i = size THEN 0 ELSE 97 + (i % 3)) ELSE t[i]]
    [] OTHER -> t
DstTag(name, size) == DstTagV(name, size, 0)
DstCase(p) ==
  [mem |-> InfoImage(<<DstTagV(p.kind, p.size, p.v), Neighbour>>),
   al |-> 0,
   calls |-> <<[op |-> "load"]>> \o ReadCalls(p.kind),
   desc |-> [area |-> "dst"] @@ p]
=============================================================================
