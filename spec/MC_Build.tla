------------------------------- MODULE MC_Build -------------------------------
(***************************************************************************)
(* Construction-side corpora:                                              *)
(*   Ctor     (C07, C17) every public constructor, byte-marked arguments,  *)
(*            content lengths covering every padding residue               *)
(*   Boxed    (C16) new_boxed on all partitions of content into slices,    *)
(*            clone_dyn of every DST kind                                  *)
(*   Builder  (C06) call sequences over representative slots; every slot   *)
(*            alone and in pairs                                           *)
(*   HBuilder (C12) all subsets of the header builder's slots x both       *)
(*            architectures; sequences with repeated calls                 *)
(***************************************************************************)
EXTENDS MCBase

CONSTANTS MaxContent, MaxSeq, MaxTotal, BigPalettes, BigRequests

\* byte-marked argument values: every byte of every argument is distinct within a call
Mark(seed, w) == [i \in 1..w |-> (seed * 16 + i * 7 + 3) % 256]
MarkNZ(seed, w) == [i \in 1..w |-> ((seed * 16 + i * 7 + 3) % 255) + 1]
\* seed 3 is the end-tag look-alike: wherever a value is free it is chosen so that the 8-byte chunks of the tag read
\* "type 0, size 8" - nothing may recognise structure by content instead of by the stored sizes
EndLike(off, w) == [i \in 1..w |-> IF (off + i - 1) % 8 = 4 THEN 8 ELSE 0]
Content(seed, n) == IF seed = 3 THEN EndLike(0, n) ELSE [i \in 1..n |-> (seed + i * 5) % 256]
Text(seed, n) == [i \in 1..n |-> 97 + ((seed + i) % 26)]
RECURSIVE Concat(_)
Concat(ss) == IF ss = <<>> THEN <<>> ELSE ss[1] \o Concat(Tail(ss))

\* argument record of a sized kind: one marked value per stored argument field
ArgNames(name) == {StoredFields(name)[i].n : i \in {j \in 1..Len(StoredFields(name)) : StoredFields(name)[j].n # "#const"}}
FieldW(name, n) == LET fs == StoredFields(name) IN fs[CHOOSE i \in 1..Len(fs) : fs[i].n = n].w
FieldOff(name, n) == LET fs == StoredFields(name) IN fs[CHOOSE i \in 1..Len(fs) : fs[i].n = n].off
SizedArgs(name, seed) ==
  [n \in ArgNames(name) |->
     IF name = "vbe" /\ n = "mi.memory_model" THEN <<(seed + 3) % 8>>
     ELSE IF name = "console" /\ n = "console_flags" THEN U32Bytes(seed % 2)
     ELSE IF name = "relocatable" /\ n = "preference" THEN U32Bytes(seed % 3)
     ELSE IF seed = 3 /\ FieldW(name, n) \in {4, 8} THEN EndLike(FieldOff(name, n), FieldW(name, n))
     ELSE IF seed = 4 THEN [i \in 1..FieldW(name, n) |-> 255]          \* every argument at its maximum
     ELSE IF seed = 5 THEN [i \in 1..FieldW(name, n) |-> 0]            \* ... and at zero
     ELSE Mark(seed + FieldOff(name, n), FieldW(name, n))]
HFlags(seed) == [flags |-> U16Bytes(seed % 2)]

SizedInfoKinds == {n \in InfoKindNames : ~InfoKind(n).dst} \ {"end"}
SizedHdrKinds == HeaderKindNames \ {"info_req", "hend"}

\* argument record of a DST kind with content of n bytes / elements
DstArgs(name, seed, n) ==
  CASE name \in {"cmdline", "bootloader"} -> [text |-> Text(seed, n)]
    [] name = "module" -> [text |-> Text(seed, n), start_address |-> <<1, 2, 3, 4>>, end_address |-> <<1, 2, 3, 5>>]
    [] name = "mmap" -> [areas |-> [i \in 1..n |-> [start_address |-> Mark(seed + i, 8), size |-> Mark(seed + i + 40, 8),
                                                   typ |-> Mark(seed + i + 80, 4)]]]
    [] name = "framebuffer" ->
         [address |-> Mark(seed, 8), pitch |-> Mark(seed + 1, 4), width |-> Mark(seed + 2, 4), height |-> Mark(seed + 3, 4),
          bpp |-> Mark(seed + 4, 1)]
         @@ (IF n = 0 THEN [fbtype |-> "text"]
             ELSE IF n = 1 THEN [fbtype |-> "rgb", rgb |-> Mark(seed + 5, 6)]
             ELSE [fbtype |-> "indexed", palette |-> [i \in 1..(n - 2) |-> Mark(seed + 6 + i, 3)]])
    [] name = "elf" -> [number_of_sections |-> Mark(seed, 4), entry_size |-> Mark(seed + 1, 4), shndx |-> Mark(seed + 2, 4),
                        content |-> Content(seed, n)]
    [] name = "smbios" -> [major |-> Mark(seed, 1), minor |-> Mark(seed + 1, 1), content |-> Content(seed, n)]
    [] name = "network" -> [content |-> Content(seed, n)]
    [] name = "efi_mmap" -> [desc_size |-> U32Bytes(40 + 8 * (seed % 2)), desc_version |-> U32Bytes(1), content |-> Content(seed, n)]
    [] name = "custom" -> [typ |-> <<22 + (seed % 200), 1, 0, 0>>, content |-> Content(seed, n)]
    [] name = "info_req" -> [requests |-> [i \in 1..n |-> IF seed = 3 THEN EndLike(4 * (i - 1), 4) ELSE Mark(seed + i, 4)]] @@ HFlags(seed)
DstCtorKinds == {n \in InfoKindNames : InfoKind(n).dst} \cup {"custom", "info_req"}

\* ---- Ctor corpus -------------------------------------------------------------------------------------------
CtorCall(name, args, clone) == [op |-> "construct", kind |-> name, clone |-> clone] @@ args
CtorParams ==
  { [kind |-> n, seed |-> s, n |-> 0, variant |-> "sized"] : n \in SizedInfoKinds \cup SizedHdrKinds, s \in {1, 2, 3, 4, 5} }
  \cup { [kind |-> n, seed |-> s, n |-> len, variant |-> "dst"] : n \in DstCtorKinds, s \in {1, 2, 3}, len \in 0..MaxContent }
  \cup { [kind |-> n, seed |-> 1, n |-> 0, variant |-> v] : n \in {"end", "hend", "efi_bs"}, v \in {"new", "default"} }
  \cup { [kind |-> "framebuffer", seed |-> 1, n |-> n, variant |-> "dst"] : n \in BigPalettes }
  \cup { [kind |-> "module", seed |-> 1, n |-> 3, variant |-> v] : v \in {"end=start", "end<start"} }
  \cup { [kind |-> "efi_mmap", seed |-> 1, n |-> len, variant |-> v] : v \in {"descs", "size0"}, len \in 0..2 }
  \cup { [kind |-> n, seed |-> 1, n |-> len, variant |-> v] : n \in {"cmdline", "bootloader", "module"}, len \in 0..3,
                                                             v \in {"nul", "nul2", "nul3", "inner"} }
\* the fixed-size kinds: their constructors need no allocator and exist in every build (C07 in each, C08 across them)
CtorSizedParams == { p \in CtorParams : p.variant \in {"sized", "new", "default"} }
CtorArgs(p) ==
  CASE p.variant = "sized" -> IF p.kind \in SizedHdrKinds THEN SizedArgs(p.kind, p.seed) @@ HFlags(p.seed) ELSE SizedArgs(p.kind, p.seed)
    [] p.variant = "dst" -> DstArgs(p.kind, p.seed, p.n)
    [] p.variant \in {"new", "default"} -> [default |-> p.variant = "default"]
    [] p.variant = "end=start" -> [text |-> Text(1, 3), start_address |-> <<9, 9, 9, 9>>, end_address |-> <<9, 9, 9, 9>>]
    [] p.variant = "end<start" -> [text |-> Text(1, 3), start_address |-> <<9, 9, 9, 9>>, end_address |-> <<8, 9, 9, 9>>]
    [] p.variant = "descs" -> [descs |-> [i \in 1..p.n |-> [ty |-> Mark(i, 4), phys_start |-> Mark(i + 1, 8), virt_start |-> Mark(i + 2, 8),
                                                           page_count |-> Mark(i + 3, 8), att |-> Mark(i + 4, 8)]]]
    [] p.variant = "size0" -> [desc_size |-> U32Bytes(0), desc_version |-> U32Bytes(1), content |-> Content(1, p.n)]
    [] p.variant \in {"nul", "nul2", "nul3", "inner"} ->      \* text that already ends with NUL is stored as it is
         (IF p.kind = "module" THEN [start_address |-> <<1, 0, 0, 0>>, end_address |-> <<2, 0, 0, 0>>] ELSE <<>>)
         @@ [text |-> CASE p.variant = "nul" -> Text(1, p.n) \o <<0>>
                        [] p.variant = "nul2" -> Text(1, p.n) \o <<0, 0>>
                        [] p.variant = "nul3" -> Text(1, p.n) \o <<0, 0, 0>>
                        [] OTHER -> Text(1, p.n) \o <<0>> \o Text(2, p.n)]
CtorCase(p) ==
  [mem |-> <<>>, al |-> 0,
   calls |-> <<CtorCall(p.kind, CtorArgs(p), p.variant = "dst")>>,
   desc |-> [area |-> "ctor"] @@ p]

\* ---- Boxed corpus: all partitions of a content of total length 0..MaxTotal into <= 3 slices ---------------------
Partitions == UNION { { <<a, b, t - a - b>> : a \in 0..t, b \in 0..t } : t \in 0..MaxTotal }
BoxedParams == { [h |-> h, parts |-> <<x[1], x[2], x[3]>>, k |-> k]
                 : h \in {"tag", "htag", "dummy", "h12", "h4", "mb", "mb4"}, x \in {y \in Partitions : y[3] >= 0}, k \in 1..3 }
SliceAt(start, n) == [i \in 1..n |-> (start + i) % 256]
BoxedCase(p) ==
  LET sl == <<SliceAt(10, p.parts[1]), SliceAt(10 + p.parts[1], p.parts[2]), SliceAt(10 + p.parts[1] + p.parts[2], p.parts[3])>> IN
  [mem |-> <<>>, al |-> 0,
   calls |-> <<[op |-> "new_boxed", h |-> IF p.h = "mb4" THEN "mb" ELSE p.h,
                typ |-> CASE p.h = "mb" -> <<0, 0, 0, 0>> [] p.h = "mb4" -> <<4, 0, 0, 0>> [] OTHER -> <<77, 1, 0, 0>>, slices |-> SubSeq(sl, 1, p.k), clone |-> TRUE]>>,
   desc |-> [area |-> "boxed"] @@ p]

\* ---- Builder corpus -------------------------------------------------------------------------------------------------
BSlots == {"meminfo", "cmdline", "module", "smbios", "custom", "network", "efi_bs"}
AllSlots == (InfoKindNames \ {"end"}) \cup {"custom"}
SlotArgs(slot, seed) ==
  IF slot \in SizedInfoKinds THEN SizedArgs(slot, seed)
  ELSE IF slot = "efi_bs" THEN <<>>
  \* (the EFI map supplied to the builder is a valid one - two descriptors of its stride - so that reading it back iterates)
  ELSE IF slot = "efi_mmap" THEN DstArgs(slot, seed, 2 * (40 + 8 * (seed % 2)))
  ELSE DstArgs(slot, seed, IF slot \in {"mmap", "framebuffer"} THEN 2 + (seed % 2) ELSE 3 + seed)
BSet(slot, seed) == [op |-> "b_set", slot |-> slot] @@ SlotArgs(slot, seed)
RECURSIVE SeqsOfLen(_, _)
SeqsOfLen(S, n) == IF n = 0 THEN {<<>>} ELSE { <<x>> \o r : x \in S, r \in SeqsOfLen(S, n - 1) }
BuilderParams ==
  { [seq |-> q] : q \in UNION { SeqsOfLen(BSlots \X {1, 2}, n) : n \in 0..MaxSeq } }
  \cup { [seq |-> <<<<s, 1>>>>] : s \in AllSlots }
  \cup { [seq |-> <<<<s, 1>>, <<t, 2>>>>] : s \in AllSlots, t \in AllSlots }
  \* repeatable kinds in the order X, Y, X (contents 1, 2, 1 - for custom tags these are different type numbers) and X, X
  \cup { [seq |-> <<<<s, 1>>, <<s, 2>>, <<s, 1>>>>] : s \in {"custom", "smbios", "module"} }
  \cup { [seq |-> <<<<s, 1>>, <<t, 1>>, <<s, 2>>, <<t, 2>>, <<s, 1>>>>] : s \in {"custom", "smbios"}, t \in {"module", "custom"} }
  \cup { [seq |-> <<<<s, 3>>>>] : s \in AllSlots } \cup { [seq |-> <<<<s, 3>>, <<t, 3>>>>] : s \in BSlots, t \in BSlots }
BuilderCase(p) ==
  [mem |-> <<>>, al |-> 0,
   \* Builder::new() and Builder::default() are the same empty builder: odd-length sequences start from default()
   calls |-> <<[op |-> "b_new", default |-> (Len(p.seq) % 2 = 1)]>> \o [i \in 1..Len(p.seq) |-> BSet(p.seq[i][1], p.seq[i][2])]
             \* ... and a byte-identical copy of the built structure loaded at an address that is 8 modulo 16
             \o <<[op |-> "b_build"], [op |-> "b_load"], [op |-> "use_built", which |-> "info", res |-> 8], [op |-> "load"],
                  [op |-> "tags", it |-> 0], [op |-> "count", it |-> 0]>>,
   desc |-> [area |-> "builder", seq |-> p.seq]]

\* ---- HBuilder corpus ------------------------------------------------------------------------------------------------------
HSlots == HeaderKindNames \ {"hend"}
HSlotArgs(slot, seed) ==
  IF slot = "info_req" THEN DstArgs("info_req", IF seed >= 2000 THEN 1 ELSE seed, IF seed = 2 THEN 0 ELSE IF seed >= 2000 THEN seed ELSE 3)
  ELSE SizedArgs(slot, seed) @@ HFlags(seed)
HBSet(slot, seed) == [op |-> "hb_set", slot |-> slot] @@ HSlotArgs(slot, seed)
HSlotSeq == <<"info_req", "address", "entry", "console", "hfb", "module_align", "hefi_bs", "entry_efi32", "entry_efi64", "relocatable">>
HBuilderParams ==
  { [arch |-> a, seq |-> SelectSeq([i \in 1..10 |-> <<HSlotSeq[i], 1>>], LAMBDA x : x[1] \in S)] : a \in {0, 4}, S \in SUBSET HSlots }
  \cup { [arch |-> 0, seq |-> q] : q \in UNION { SeqsOfLen({"entry", "info_req", "module_align"} \X {1, 2}, n) : n \in 2..MaxSeq } }
  \* end-tag look-alike arguments: every slot alone, and all together
  \cup { [arch |-> 0, seq |-> <<<<s, 3>>>>] : s \in HSlots } \cup { [arch |-> 4, seq |-> [i \in 1..10 |-> <<HSlotSeq[i], 3>>]] }
  \* headers around and beyond 8192 bytes (the search window of find_header is not a limit of load): an information
  \* request of n entries gives a header of 16 + 8 + 4n (+ padding) + 8 bytes: 8192 at n = 2040
  \cup { [arch |-> 0, seq |-> <<<<"info_req", n>>>>] : n \in BigRequests }
HBuilderCase(p) ==
  [mem |-> <<>>, al |-> 0,
   calls |-> <<[op |-> "hb_new", arch |-> p.arch]>> \o [i \in 1..Len(p.seq) |-> HBSet(p.seq[i][1], p.seq[i][2])]
             \* ... and a byte-identical copy of the built header loaded at an address that is 8 modulo 16
             \o <<[op |-> "hb_build"], [op |-> "hb_load"], [op |-> "use_built", which |-> "header", res |-> 8], [op |-> "hload"],
                  [op |-> "htags", it |-> 0], [op |-> "count", it |-> 0]>>,
   desc |-> [area |-> "hbuilder", arch |-> p.arch, seq |-> p.seq]]

\* ---- the encoding table and the decoding table agree (read-back on the specification level) -------------------------------
ASSUME \A name \in SizedInfoKinds : \A seed \in {1, 2} :
         LET call == SizedArgs(name, seed)  E == Enc(name, call)  K == InfoKind(name) IN
         /\ Len(E) = K.wire
         /\ \A i \in 1..Len(K.fields) : Bytes(E, K.fields[i].off, K.fields[i].w) = call[K.fields[i].n]
=============================================================================
