------------------------------ MODULE MC_Fb ------------------------------
EXTENDS MCInfoLib

\* ---- Fb corpus: all framebuffer type bytes x colour-info lengths ----------------------------------
FbParams == { [tb |-> tb, blen |-> bl, nc |-> nc] : tb \in 0..255, bl \in {0, 1, 2, 5, 6, 8, 11}, nc \in {0} }
            \cup { [tb |-> tb, blen |-> bl, nc |-> nc] : tb \in {0, 1, 2}, bl \in 0..17, nc \in 0..6 \cup {255, 21845, 21846, 21847, 32768, 43691, 43692, 65535} }
            \* few bits per pixel, more colours than 2^bpp: the palette is as long as the tag says
            \cup { [tb |-> 0, blen |-> 2 + 3 * nc, nc |-> nc, bpp |-> b] : nc \in {3, 5, 17}, b \in {0, 1, 2, 4} }
FbTag(p) ==
  LET size == 32 + p.blen
      t0 == RawTag(8, size, 0)
      t == IF "bpp" \in DOMAIN p THEN Override(t0, 28, <<p.bpp>>) ELSE t0 IN
  Override(Override(t, 29, <<p.tb>>), 32, SubSeq(U16Bytes(p.nc) \o [i \in 1..60 |-> i], 1, p.blen))
FbCase(p) ==
  [mem |-> InfoImage(<<FbTag(p), Neighbour>>), al |-> 0,
   calls |-> <<[op |-> "load"], [op |-> "get", kind |-> "framebuffer"],
               [op |-> "field", kind |-> "framebuffer", f |-> "buffer_type"],
               [op |-> "field", kind |-> "framebuffer", f |-> "bpp"],
               [op |-> "dbg", what |-> "framebuffer"]>>,
   desc |-> [area |-> "fb"] @@ p]
=============================================================================
