-------------------------------- MODULE MCBase --------------------------------
(***************************************************************************)
(* Generic bounded model: a case (image + call plan) is chosen from Cases, *)
(* the reference design executes the plan call by call, and in every state *)
(* the declarative predicates of all properties are evaluated on what the  *)
(* design produced (Design |= Properties).  Every explored case is         *)
(* exported as one REPLAY line for the conformance harness.                *)
(***************************************************************************)
EXTENDS MB2Api, Json

CONSTANTS Params,       \* the model's parameter space (small records), substituted per model
          MkCase(_)     \* parameter |-> case [mem, al, calls, desc]

VARIABLES c,            \* the case
          pc,           \* index of the next call
          trk,          \* tracked (abstract) state, as trace validation will see it
          ds,           \* design (concrete) state: cursors
          last          \* [call, o, trk] of the step just taken (observation only)
mcvars == <<c, pc, trk, ds, last>>

NoLast == [call |-> [op |-> "none"], o |-> Unit, trk |-> TrkInit]

MCInit == /\ \E p \in Params : c = MkCase(p)
          /\ pc = 1 /\ trk = TrkInit /\ ds = DsInit /\ last = NoLast

MCStep ==
  /\ pc <= Len(c.calls)
  /\ LET call == c.calls[pc]  r == DesignStep(c, ds, call) IN
     /\ last' = [call |-> call, o |-> r.o, trk |-> trk]
     /\ ds' = r.ds
     /\ trk' = Advance(c, trk, call, r.o)
  /\ pc' = pc + 1 /\ UNCHANGED c

MCDone == pc > Len(c.calls) /\ UNCHANGED mcvars

MCNext == MCStep \/ MCDone
MCSpec == MCInit /\ [][MCNext]_mcvars /\ WF_mcvars(MCStep)

\* Design |= Properties: what the design just returned is accepted by every property
DesignAccepted ==
  last.call.op = "none" \/ Violated(c, last.trk, last.call, last.o) = {}
\* the design never needs an outcome the library must not produce
DesignControlled == last.o.k \notin {"crash", "hang", "unsupported"}
\* every plan terminates
Terminates == <>(pc > Len(c.calls))

Export == (pc = 1) => PrintT(<<"REPLAY", ToJson(c)>>)
=============================================================================
