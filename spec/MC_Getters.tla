------------------------------ MODULE MC_Getters ------------------------------
EXTENDS MCInfoLib
CONSTANTS MaxTags

\* ---- Getters corpus: multiplicity and order ----------------------------------------------------
\* "end": a type-0 tag in the middle does not end the walk - only the declared total size does
GKinds == {"meminfo", "cmdline", "efi_bs", "efi_mmap", "load_base_addr", "module", "end"}
RECURSIVE SeqsUpTo(_, _)
SeqsUpTo(S, n) == IF n = 0 THEN {<<>>} ELSE {<<>>} \cup { <<x>> \o r : x \in S, r \in SeqsUpTo(S, n - 1) }
\* long walks: a getter must still find the first match behind many other tags (also duplicates)
LongSeq(n, lastKind) == [i \in 1..n |-> IF i % 2 = 0 THEN "cmdline" ELSE "module"] \o <<lastKind>>
GettersParams == { [ks |-> ks] : ks \in SeqsUpTo(GKinds, MaxTags) }
                 \cup { [ks |-> LongSeq(n, k)] : n \in {11, 12, 22, 23, 40}, k \in {"meminfo", "load_base_addr", "efi_mmap"} }
\* the i-th tag of a sequence uses fill i % 2 so that duplicates differ
GettersCase(p) ==
  [mem |-> InfoImage([i \in 1..Len(p.ks) |-> ConformantTag(p.ks[i], i % 2)]),
   al |-> 0,
   calls |-> <<[op |-> "load"]>>
             \o Concat([i \in 1..6 |-> LET n == <<"meminfo", "cmdline", "efi_bs", "efi_mmap", "load_base_addr", "module">>[i] IN
                                       <<[op |-> "get", kind |-> n]>>])
             \o <<[op |-> "field", kind |-> "meminfo", f |-> "memory_lower"],
                  [op |-> "field", kind |-> "load_base_addr", f |-> "load_base_addr"],
                  [op |-> "field", kind |-> "module", f |-> "start_address"],
                  [op |-> "str", kind |-> "cmdline"], [op |-> "get", kind |-> "apm"]>>
             \* module_tags() is a getter too: all module tags, in walk order, whatever lies between them
             \o <<[op |-> "module_tags", it |-> 0]>> \o [i \in 1..(Len(p.ks) + 2) |-> [op |-> "next", it |-> 0]]
             \o <<[op |-> "module_tags", it |-> 1], [op |-> "count", it |-> 1]>>,
   desc |-> [area |-> "getters"] @@ p]
=============================================================================
