------------------------------ MODULE MB2Builder ------------------------------
(***************************************************************************)
(* Construction side: the wire image every public constructor must emit    *)
(* (C07, C17), heap construction and cloning with allocator events (C16),  *)
(* the two builders as slot machines (C06, C12).                           *)
(***************************************************************************)
EXTENDS MB2Header

\* ---- stored layout of every sized kind: accessor fields plus stored-only fields ----------------
Const(off, b) == [n |-> "#const", off |-> off, w |-> Len(b), b |-> b]
Arg(n, off, w) == [n |-> n, off |-> off, w |-> w]
RsdpSig == <<82, 83, 68, 32, 80, 84, 82, 32>>          \* "RSD PTR "
\* fields an argument record must supply, with their stored position
StoredFields(name) ==
  CASE name = "rsdpv1" -> <<Const(8, RsdpSig), Arg("checksum", 16, 1), Arg("oem_id", 17, 6), Arg("revision", 23, 1),
                            Arg("rsdt_address", 24, 4)>>
    [] name = "rsdpv2" -> <<Const(8, RsdpSig), Arg("checksum", 16, 1), Arg("oem_id", 17, 6), Arg("revision", 23, 1),
                            Arg("rsdt_address", 24, 4), Arg("length", 28, 4), Arg("xsdt_address", 32, 8),
                            Arg("ext_checksum", 40, 1)>>
    [] name \in InfoKindNames -> [i \in 1..Len(InfoKind(name).fields) |->
                                    Arg(InfoKind(name).fields[i].n, InfoKind(name).fields[i].off, InfoKind(name).fields[i].w)]
    [] OTHER -> [i \in 1..Len(HeaderKind(name).fields) |->
                   Arg(HeaderKind(name).fields[i].n, HeaderKind(name).fields[i].off, HeaderKind(name).fields[i].w)]
IsHeaderKind(name) == name \in HeaderKindNames
KindRec(name) == IF IsHeaderKind(name) THEN HeaderKind(name) ELSE InfoKind(name)
\* first 8 bytes of a tag of `size` bytes
TagHead(name, call, size) ==
  IF IsHeaderKind(name) THEN U16Bytes(HeaderKind(name).id) \o U16Bytes(IF Has(call, "flags") THEN LE2(call.flags) ELSE 0) \o U32Bytes(size)
  ELSE U32Bytes(InfoKind(name).id) \o U32Bytes(size)
\* byte i (0-based, i >= 8) of the fixed part: the argument / constant stored there, else zero (reserved)
FixedByte(name, call, i) ==
  LET fs == StoredFields(name)
      S == {k \in 1..Len(fs) : i >= fs[k].off /\ i < fs[k].off + fs[k].w} IN
  IF S = {} THEN 0
  ELSE LET f == fs[CHOOSE k \in S : TRUE] IN
       IF f.n = "#const" THEN f.b[i - f.off + 1] ELSE call[f.n][i - f.off + 1]
FixedPart(name, call, upto) == [i \in 9..upto |-> FixedByte(name, call, i - 1)]
SeqFrom9(f, upto) == [j \in 1..(upto - 8) |-> f[j + 8]]

WithNul(t) == IF t # <<>> /\ t[Len(t)] = 0 THEN t ELSE t \o <<0>>
RECURSIVE FlatMap(_, _)
FlatMap(Op(_), xs) == IF xs = <<>> THEN <<>> ELSE Op(xs[1]) \o FlatMap(Op, Tail(xs))
AreaBytes(a) == a.start_address \o a.size \o a.typ \o <<0, 0, 0, 0>>
ColorBytes(c) == c
\* variable part of a DST kind
DstBody(name, call) ==
  CASE name \in {"cmdline", "bootloader"} -> WithNul(call.text)
    [] name = "module" -> call.start_address \o call.end_address \o WithNul(call.text)
    [] name = "mmap" -> U32Bytes(24) \o U32Bytes(0) \o FlatMap(AreaBytes, call.areas)
    [] name = "framebuffer" ->
         call.address \o call.pitch \o call.width \o call.height \o call.bpp
         \o (CASE call.fbtype = "indexed" -> <<0, 0, 0>> \o U16Bytes(Len(call.palette) % 65536)      \* the count is a u16
                                              \o [i \in 1..(3 * Len(call.palette)) |-> call.palette[((i - 1) \div 3) + 1][((i - 1) % 3) + 1]]
               [] call.fbtype = "rgb" -> <<1, 0, 0>> \o call.rgb
               [] OTHER -> <<2, 0, 0>>)
    [] name = "elf" -> call.number_of_sections \o call.entry_size \o call.shndx \o call.content
    [] name = "smbios" -> call.major \o call.minor \o <<0, 0, 0, 0, 0, 0>> \o call.content
    [] name = "network" -> call.content
    [] name = "efi_mmap" -> call.desc_size \o call.desc_version \o call.content
    [] name = "custom" -> call.content
    [] name = "info_req" -> FlatMap(LAMBDA r : r, call.requests)
\* a constructor that must reject its arguments with a controlled panic
CtorPanics(name, call) ==
  CASE name = "module" -> ~LtLE(call.start_address, call.end_address)           \* "must have a size"
    [] name = "efi_mmap" -> ~Has(call, "descs") /\ call.desc_size = <<0, 0, 0, 0>>
    [] name = "framebuffer" -> call.fbtype = "indexed" /\ Len(call.palette) > 65535      \* the colour count is a u16
    [] OTHER -> FALSE
\* EFI memory map built from descriptors: 40-byte UEFI descriptors, version 1; the 4 bytes after `ty` are padding
DescBytes(d) == d.ty \o <<0, 0, 0, 0>> \o d.phys_start \o d.virt_start \o d.page_count \o d.att
IsDescPad(i) == (i - 16) % 40 >= 4 /\ (i - 16) % 40 < 8           \* i = 0-based offset in the tag
\* the exact wire image of the constructed tag (its length is the size field)
Enc(name, call) ==
  IF name = "custom" THEN U32Bytes(LE4(call.typ)) \o U32Bytes(8 + Len(call.content)) \o call.content
  ELSE IF name = "efi_mmap" /\ Has(call, "descs") THEN
     LET body == U32Bytes(40) \o U32Bytes(1) \o FlatMap(DescBytes, call.descs) IN
     TagHead(name, call, 8 + Len(body)) \o body
  ELSE LET K == KindRec(name) IN
       IF K.dst THEN LET body == DstBody(name, call) IN TagHead(name, call, 8 + Len(body)) \o body
       ELSE TagHead(name, call, K.wire) \o SeqFrom9(FixedPart(name, call, K.wire), K.wire)
CtorId(name, call) == IF name = "custom" THEN call.typ ELSE ZExt(U16Bytes(KindRec(name).id), 4)
EqUpTo(a, b, n, maskPad) ==
  Len(a) >= n /\ \A i \in 1..n : (maskPad /\ IsDescPad(i - 1)) \/ a[i] = b[i]

\* ---- C16: allocator discipline -----------------------------------------------------------------
\* events: <<[ev, id, size, align]>>.  Temporaries (allocated and released inside the call) are ignored.
Survivors(evs) ==
  {i \in 1..Len(evs) : evs[i].ev = "alloc" /\ ~\E j \in (i + 1)..Len(evs) : evs[j].ev = "dealloc" /\ evs[j].id = evs[i].id}
\* exactly one allocation survives construction: the object, with the rounded size and 8-alignment
AllocOk(v, total) ==
  LET S == Survivors(v.allocs) IN
  /\ Cardinality(S) = 1
  /\ LET a == v.allocs[CHOOSE i \in S : TRUE] IN
     a.id = v.obj /\ a.size = RoundUp8(total) /\ a.align % 8 = 0 /\ a.align > 0
\* dropping releases that allocation exactly once with the layout it was allocated with
DropOk(v) ==
  LET S == Survivors(v.allocs)
      D == {j \in 1..Len(v.drops) : v.drops[j].ev = "dealloc" /\ v.drops[j].id = v.obj} IN
  /\ Cardinality(D) = 1
  /\ Cardinality(S) = 1 =>
       LET a == v.allocs[CHOOSE i \in S : TRUE]  d == v.drops[CHOOSE j \in D : TRUE] IN
       d.size = a.size /\ d.align = a.align
  /\ \A j \in 1..Len(v.drops) : v.drops[j].ev = "alloc" =>
        \E k \in (j + 1)..Len(v.drops) : v.drops[k].ev = "dealloc" /\ v.drops[k].id = v.drops[j].id
HeapObjOk(v, total) == v.sv = RoundUp8(total) /\ v.al = 0 /\ AllocOk(v, total) /\ DropOk(v)

\* ---- builders (C06 / C12) --------------------------------------------------------------------------
RepeatableSlots == {"module", "smbios", "custom"}
\* supplied: sequence of [slot, img] in call order (img = the supplied tag's bytes up to its size)
Effective(supplied) ==
  LET idx == [i \in 1..Len(supplied) |-> [e |-> supplied[i], i |-> i]]
      keep == SelectSeq(idx, LAMBDA x : x.e.slot \in RepeatableSlots
                                         \/ ~\E j \in (x.i + 1)..Len(supplied) : supplied[j].slot = x.e.slot) IN
  [k \in 1..Len(keep) |-> keep[k].e]
TagBytes(mem, it) == Bytes(mem, it.at, it.size)
InfoSlotOfType(typ4) ==
  LET S == {n \in InfoKindNames : U32Bytes(InfoKind(n).id) = typ4} IN
  IF S = {} THEN "custom" ELSE CHOOSE n \in S : TRUE
HdrSlotOfType(typ4) ==
  LET S == {n \in HeaderKindNames : U16Bytes(HeaderKind(n).id) = SubSeq(typ4, 1, 2)} IN
  IF S = {} THEN "?" ELSE CHOOSE n \in S : TRUE
\* per slot, the walk shows exactly the effective supplied tags of that slot, byte for byte, in call order
SlotsMatch(mem, items, eff, SlotOf(_)) ==
  /\ Len(items) = Len(eff)
  /\ \A s \in {eff[i].slot : i \in 1..Len(eff)} \cup {SlotOf(items[i].typ) : i \in 1..Len(items)} :
       LET got == SelectSeq(items, LAMBDA it : SlotOf(it.typ) = s)
           want == SelectSeq(eff, LAMBDA e : e.slot = s) IN
       /\ Len(got) = Len(want)
       /\ \A i \in 1..Len(got) : TagBytes(mem, got[i]) = want[i].img
AcceptInfoBuild(supplied, v) ==
  LET mem == v.bytes  eff == Effective(supplied)  w == InfoWalk(mem)  n == Len(eff) IN
  /\ v.al = 0 /\ Len(mem) % 8 = 0 /\ v.sv = Len(mem)
  /\ (Has(v, "allocs") => AllocOk(v, Len(mem)))             \* 8-aligned by REQUEST, not by the allocator's generosity
  /\ Len(mem) >= 16 /\ U32At(mem, 0) = Len(mem)
  /\ LoadSpec(FALSE, mem).k = "ok"
  /\ w.fin = "none" /\ Len(w.items) = n + 1
  /\ w.items[n + 1].typ = <<0, 0, 0, 0>> /\ w.items[n + 1].size = 8 /\ w.items[n + 1].at = Len(mem) - 8
  /\ SlotsMatch(mem, SubSeq(w.items, 1, n), eff, InfoSlotOfType)
AcceptHdrBuild(arch, supplied, v) ==
  LET mem == v.bytes  eff == Effective(supplied)  n == Len(eff) IN
  /\ v.al = 0 /\ Len(mem) % 8 = 0 /\ v.sv = Len(mem) /\ Len(mem) >= 24
  /\ (Has(v, "allocs") => AllocOk(v, Len(mem)))
  /\ Bytes(mem, 0, 4) = HdrMagic /\ Bytes(mem, 4, 4) = U32Bytes(arch) /\ U32At(mem, 8) = Len(mem)
  /\ HLoadSpec(FALSE, mem).k = "ok"
  /\ LET w == HWalk(mem) IN
     /\ w.fin = "none" /\ Len(w.items) = n + 1
     \* terminated by an end tag: type 0, flags 0, size 8
     /\ w.items[n + 1].typ = <<0, 0, 0, 0>> /\ w.items[n + 1].size = 8 /\ w.items[n + 1].at = Len(mem) - 8
     /\ SlotsMatch(mem, SubSeq(w.items, 1, n), eff, HdrSlotOfType)

\* reference design of the builders: one push per slot in a fixed slot order, then the end tag
InfoSlotOrder == <<"cmdline", "bootloader", "module", "meminfo", "bootdev", "mmap", "vbe", "framebuffer", "elf", "apm",
                   "efi32", "efi64", "smbios", "rsdpv1", "rsdpv2", "network", "efi_mmap", "efi_bs", "efi32_ih", "efi64_ih",
                   "load_base_addr", "custom">>
HdrSlotOrder == <<"info_req", "address", "entry", "console", "hfb", "module_align", "hefi_bs", "entry_efi32",
                  "entry_efi64", "relocatable">>
PadTo8(b) == b \o Zeros(RoundUp8(Len(b)) - Len(b))
BodyInOrder(eff, order) ==
  FlatMap(LAMBDA s : FlatMap(LAMBDA e : PadTo8(e.img), SelectSeq(eff, LAMBDA e : e.slot = s)), order)
DesignInfoBuild(supplied) ==
  LET body == BodyInOrder(Effective(supplied), InfoSlotOrder) \o EndTagBytes
      T == 8 + Len(body) IN
  [bytes |-> U32Bytes(T) \o <<0, 0, 0, 0>> \o body, sv |-> T, al |-> 0]
DesignHdrBuild(arch, supplied) ==
  LET body == BodyInOrder(Effective(supplied), HdrSlotOrder) \o <<0, 0, 0, 0, 8, 0, 0, 0>>
      L == 16 + Len(body) IN
  [bytes |-> HdrMagic \o U32Bytes(arch) \o U32Bytes(L) \o ChecksumBytes(HdrMagic, U32Bytes(arch), U32Bytes(L)) \o body,
   sv |-> L, al |-> 0]
=============================================================================
