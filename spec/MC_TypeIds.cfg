SPECIFICATION MCSpec
CONSTANT Params <- TypeIdsParams
CONSTANT MkCase <- TypeIdsCase
INVARIANT DesignAccepted
INVARIANT DesignControlled
INVARIANT Export
PROPERTY Terminates
CHECK_DEADLOCK FALSE
