SPECIFICATION MCSpec
CONSTANT Params <- EfiParamsAll
CONSTANT MkCase <- EfiCase
CONSTANT MaxD = 64
CONSTANT LCap = 100
CONSTANT EfiSizeSet = {}
INVARIANT DesignAccepted
INVARIANT DesignControlled
INVARIANT Export
PROPERTY Terminates
CHECK_DEADLOCK FALSE
