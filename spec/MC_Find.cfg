SPECIFICATION MCSpec
CONSTANT Params <- FindParams
CONSTANT MkCase <- FindCase
CONSTANT MaxLen = 64
CONSTANT MaxL = 32
CONSTANT MaxTags = 3
CONSTANT FindLens = {0, 3, 4, 8, 12, 16, 24, 64, 8184, 8188, 8192, 8196, 8200, 8204, 16384, 32768, 32776, 65536}
CONSTANT FindPos = {0, 1, 4, 8, 16, 8176, 8180, 8184, 8188, 8189, 8192, 8200}
INVARIANT DesignAccepted
INVARIANT DesignControlled
INVARIANT Export
PROPERTY Terminates
CHECK_DEADLOCK FALSE
