------------------------------ MODULE MC_Elf ------------------------------
EXTENDS MCInfoLib
CONSTANTS MaxN, ElfSizes, ElfRots

\* ---- Elf corpus (C19): count x entry size x string-table index x section bytes x raw types --------------
ExtAddr == <<0, 0, 0, 16, 0, 0, 0, 0>>             \* 0x1000_0000: where the harness maps the string table
\* "\0.text\0.<e-acute>\0<invalid>\0", then (index 13) a name of 300 letters - names are as long as their NUL says
ExtData == <<0, 46, 116, 101, 120, 116, 0, 46, 195, 169, 0, 255, 0>> \o [i \in 1..300 |-> 97 + (i % 26)] \o <<0>>
RawTypes == << <<0, 0, 0, 0>>, <<1, 0, 0, 0>>, <<11, 0, 0, 0>>, <<12, 0, 0, 0>>, <<255, 255, 255, 95>>,
               <<0, 0, 0, 96>>, <<255, 255, 255, 111>>, <<0, 0, 0, 112>>, <<255, 255, 255, 127>>, <<0, 0, 0, 128>> >>
NameIdx == <<1, 13, 7, 11, 0>>
\* entry i of an ELF table with entry size es: markers, a raw type from the rotation, a valid name index,
\* and (for the string-table entry) the external address
BadAddr == <<0, 0, 0, 32, 0, 0, 0, 0>>             \* 0x2000_0000: nothing is mapped there
ElfEntryBytesA(es, i, rot, isStr, addr) ==
  LET b == [j \in 1..es |-> FillB(i * 64 + j)]
      withT == IF es >= 8 THEN Override(Override(b, 0, U32Bytes(NameIdx[(i % 5) + 1])), 4, RawTypes[((i + rot) % 10) + 1]) ELSE b IN
  IF ~isStr THEN withT
  \* the string-table entry: its address, and (odd rotations) a section size of 2 - names are NUL-terminated strings at
  \* the table's address; the table's own size field takes no part in resolving them
  ELSE LET szd == IF rot % 2 = 1 THEN <<2, 0, 0, 0, 0, 0, 0, 0>> ELSE <<>> IN
       IF es = 40 THEN Override(Override(withT, 12, SubSeq(addr, 1, 4)), 20, SubSeq(szd, 1, Min(4, Len(szd))))
       ELSE IF es = 64 THEN Override(Override(withT, 16, addr), 32, szd) ELSE withT
ElfEntryBytes(es, i, rot, isStr) == ElfEntryBytesA(es, i, rot, isStr, ExtAddr)
ElfParamsSet ==
  UNION { { [n |-> n, es |-> es, shndx |-> sh, slen |-> sl, rot |-> rot, atEnd |-> lst, strbad |-> FALSE]
            \* string-table indices also from the reserved range of ELF (0xff00..0xffff): just as far outside the table
            : sh \in 0..(n + 1) \cup {65280, 65535}, sl \in {0, Max(es * n, 1) - 1, es * n, es * n + 8, es * (n + 1)}, rot \in ElfRots, lst \in BOOLEAN }
          : n \in 0..MaxN, es \in ElfSizes }
  \* strbad: the string table the tag designates lies at an unmapped address.  Iterating, counting and Debug formatting
  \* never resolve a name - only an explicit name() call goes to the external address (C01's one exception)
  \cup UNION { { [n |-> n, es |-> es, shndx |-> sh, slen |-> es * n, rot |-> rot, atEnd |-> FALSE, strbad |-> TRUE]
                : sh \in 0..(n - 1), rot \in ElfRots } : n \in 1..MaxN, es \in {40, 64} }
ElfTag(p) ==
  \* (with a reserved string-table index the link word of entry 0 - what an "extended index" scheme would consult - is 0)
  LET lk(b, i) == IF p.shndx >= 65280 /\ i = 1 /\ p.es \in {40, 64} THEN Override(b, IF p.es = 40 THEN 24 ELSE 40, <<0, 0, 0, 0>>) ELSE b
      \* (a tag may hold more headers than it counts; the string table may be one of the surplus ones)
      cnt == IF p.shndx >= p.n /\ p.shndx < 65280 /\ p.slen >= p.es * (p.shndx + 1) THEN p.shndx + 1 ELSE p.n
      body == Concat([i \in 1..cnt |-> lk(ElfEntryBytesA(p.es, i - 1, p.rot, i - 1 = p.shndx, IF p.strbad THEN BadAddr ELSE ExtAddr), i)])
      sec == [j \in 1..p.slen |-> IF j <= Len(body) THEN body[j] ELSE FillA(j)] IN
  U32Bytes(9) \o U32Bytes(20 + p.slen) \o U32Bytes(p.n) \o U32Bytes(p.es) \o U32Bytes(p.shndx) \o sec
ElfNamesOk(p) == p.es \in {40, 64} /\ p.shndx < 65280 /\ p.es * (p.shndx + 1) <= p.slen /\ p.es * p.n <= p.slen /\ (p.shndx < p.n \/ p.slen >= p.es * (p.shndx + 1))
\* name() is called on yielded sections when names resolve, and also when the section table does not fit:
\* a conforming implementation rejects such a tag before any section is yielded, so name() is never reached
ElfNoFit(p) == ~(p.n * p.es <= p.slen /\ (p.n = 0 \/ (p.shndx + 1) * p.es <= p.slen))
\* two ELF-sections tags in one region (64-byte entries first, 40-byte entries last before the end tag, and the other way
\* round): their sections compared with one another through the value type's PartialEq / Ord / Hash
\* twin: the entries of the second table are byte-for-byte the first 40 bytes of the first table's 64-byte entries (still
\* different sections: a comparison that reads one side in the other side's layout runs past the shorter entry)
ElfCmpParams == { [cmp |-> TRUE, ea |-> ea, eb |-> eb, na |-> na, nb |-> nb, rot |-> r, twin |-> FALSE]
                  : ea \in {40, 64}, eb \in {40, 64}, na \in 1..2, nb \in 1..2, r \in {0, 3} }
                \cup { [cmp |-> TRUE, ea |-> 64, eb |-> 40, na |-> n, nb |-> n, rot |-> r, twin |-> TRUE] : n \in 1..2, r \in {0, 3} }
ElfCmpTag(es, n, rot) == ElfTag([n |-> n, es |-> es, shndx |-> 0, slen |-> es * n, rot |-> rot, atEnd |-> FALSE, strbad |-> FALSE])
ElfCmpCase(p) ==
  \* (twin: bytes 40..47 of the first table's last entry equal what follows the second table (its padding, the end tag), so that even a
  \*  field-by-field comparison in the wrong layout does not stop before it leaves the region)
  [mem |-> InfoImage(<<IF p.twin THEN Override(ElfCmpTag(64, p.na, p.rot), 20 + 64 * (p.na - 1) + 40, <<PadByte, PadByte, PadByte, PadByte, 0, 0, 0, 0>>) ELSE ElfCmpTag(p.ea, p.na, p.rot),
                       IF ~p.twin THEN ElfCmpTag(p.eb, p.nb, p.rot + 1)
                       ELSE LET a == Override(ElfCmpTag(64, p.na, p.rot), 20 + 64 * (p.na - 1) + 40, <<PadByte, PadByte, PadByte, PadByte, 0, 0, 0, 0>>) IN
                            U32Bytes(9) \o U32Bytes(20 + 40 * p.nb) \o U32Bytes(p.nb) \o U32Bytes(40) \o U32Bytes(0)
                            \o Concat([i \in 1..p.nb |-> SubSeq(a, 20 + 64 * (i - 1) + 1, 20 + 64 * (i - 1) + 40)])>>), al |-> 0,
   ext |-> [addr |-> ExtAddr, data |-> ExtData],
   calls |-> <<[op |-> "load"], [op |-> "elf_cmp"], [op |-> "dbg", what |-> "bi"]>>,
   desc |-> [area |-> "elf"] @@ p]
ElfParamsAll == ElfParamsSet \cup ElfCmpParams
ElfCase(p) ==
  IF "cmp" \in DOMAIN p THEN ElfCmpCase(p) ELSE
  [mem |-> InfoImage(IF p.atEnd THEN <<Neighbour, ElfTag(p)>> ELSE <<ElfTag(p), Neighbour>>), al |-> 0,
   ext |-> [addr |-> ExtAddr, data |-> ExtData],
   calls |-> <<[op |-> "load"], [op |-> "field", kind |-> "elf", f |-> "number_of_sections"],
               [op |-> "elf_sections", it |-> 0]>>
             \o [i \in 1..(p.n + 2) |-> [op |-> "next", it |-> 0, names |-> ~p.strbad /\ (ElfNamesOk(p) \/ ElfNoFit(p))]]
             \o <<[op |-> "count", it |-> 0], [op |-> "last", it |-> 0], [op |-> "elf_sections", it |-> 2], [op |-> "count", it |-> 2],
                  [op |-> "last", it |-> 2], [op |-> "nth", it |-> 2, n |-> 1], [op |-> "next", it |-> 2, names |-> FALSE]>>
             \o <<[op |-> "elf_sections_deprecated", it |-> 1], [op |-> "next", it |-> 1, names |-> FALSE],
                  [op |-> "dbg", what |-> "elf"],
                  \* the other public route to the tag (walk, cast) - the same checks guard the same iteration
                  [op |-> "elf_sections", it |-> 7, via |-> "cast"], [op |-> "next", it |-> 7, names |-> FALSE],
                  [op |-> "count", it |-> 7], [op |-> "last", it |-> 7]>>,
   desc |-> [area |-> "elf"] @@ p]
=============================================================================
