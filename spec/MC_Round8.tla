------------------------------ MODULE MC_Round8 ------------------------------
(* C14: the rounding function on values around every multiple of 8 near 0 and near powers of two (TLC-judged);
   the full 2^32 domain is swept natively against the law the property states. *)
EXTENDS MCBase
Pow2(k) == LET RECURSIVE P(_) P(i) == IF i = 0 THEN 1 ELSE 2 * P(i - 1) IN P(k)
R8Vals == (0..40) \cup UNION { {Pow2(k) - 9, Pow2(k) - 8, Pow2(k) - 7, Pow2(k) - 1, Pow2(k), Pow2(k) + 1, Pow2(k) + 7, Pow2(k) + 8} : k \in 4..29 }
Round8Params == { [n |-> n] : n \in R8Vals \cup {-1} }          \* -1: the rendering of the error values instead
Round8Case(p) == IF p.n = -1 THEN [mem |-> <<>>, al |-> 0, calls |-> <<[op |-> "err_texts"]>>, desc |-> [area |-> "round8", n |-> p.n]] ELSE
                 [mem |-> <<>>, al |-> 0, calls |-> <<[op |-> "round8", n |-> U32Bytes(p.n)]>>, desc |-> [area |-> "round8", n |-> p.n]]
\* the law itself, on the specification operator, for the sampled values
ASSUME \A n \in R8Vals : RoundUp8(n) % 8 = 0 /\ RoundUp8(n) >= n /\ RoundUp8(n) < n + 8
=============================================================================
