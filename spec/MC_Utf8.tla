------------------------------- MODULE MC_Utf8 -------------------------------
(***************************************************************************)
(* The byte-level UTF-8 automaton of MB2Bytes (Unicode table 3-7) checked  *)
(* against the definition by scalar values: a string is well-formed iff it *)
(* is a concatenation of encodings of scalar values (0..10FFFF without the *)
(* surrogates D800..DFFF), each in its shortest form.  Exhaustive over all *)
(* strings up to MaxLen over the bytes at which any of the rules changes.  *)
(* The corpus part replays a sample of those strings as command lines.     *)
(***************************************************************************)
EXTENDS MCInfoLib

CONSTANTS MaxLen

Edge == {0, 127, 128, 143, 144, 159, 160, 191, 192, 193, 194, 223, 224, 225, 236, 237, 238, 239, 240, 241, 243, 244, 245, 255}

\* decode one scalar value from the front of b: [ok, n (bytes used), cp]
Cont2(x) == x >= 128 /\ x <= 191
Decode1(b) ==
  LET x == b[1]  n == Len(b) IN
  IF x <= 127 THEN [ok |-> TRUE, n |-> 1, cp |-> x, min |-> 0]
  ELSE IF x >= 192 /\ x <= 223 /\ n >= 2 /\ Cont2(b[2])
       THEN [ok |-> TRUE, n |-> 2, cp |-> (x - 192) * 64 + (b[2] - 128), min |-> 128]
  ELSE IF x >= 224 /\ x <= 239 /\ n >= 3 /\ Cont2(b[2]) /\ Cont2(b[3])
       THEN [ok |-> TRUE, n |-> 3, cp |-> (x - 224) * 4096 + (b[2] - 128) * 64 + (b[3] - 128), min |-> 2048]
  ELSE IF x >= 240 /\ x <= 247 /\ n >= 4 /\ Cont2(b[2]) /\ Cont2(b[3]) /\ Cont2(b[4])
       THEN [ok |-> TRUE, n |-> 4, cp |-> (x - 240) * 262144 + (b[2] - 128) * 4096 + (b[3] - 128) * 64 + (b[4] - 128), min |-> 65536]
  ELSE [ok |-> FALSE, n |-> 0, cp |-> 0, min |-> 0]
RECURSIVE ScalarValid(_)
ScalarValid(b) ==
  IF b = <<>> THEN TRUE
  ELSE LET d == Decode1(b) IN
       /\ d.ok /\ d.cp >= d.min /\ d.cp <= 1114111 /\ ~(d.cp >= 55296 /\ d.cp <= 57343)
       /\ ScalarValid(SubSeq(b, d.n + 1, Len(b)))

RECURSIVE Strs(_)
Strs(n) == IF n = 0 THEN {<<>>} ELSE {<<>>} \cup { <<x>> \o r : x \in Edge, r \in Strs(n - 1) }
ASSUME \A s \in Strs(MaxLen) : Utf8Valid(s) = ScalarValid(s)
\* four-byte sequences: every lead byte F0..F5 x all edge continuation triples
ASSUME \A b1 \in {240, 241, 243, 244, 245}, b2 \in Edge, b3 \in {128, 191, 192}, b4 \in {127, 128, 191} :
         Utf8Valid(<<b1, b2, b3, b4>>) = ScalarValid(<<b1, b2, b3, b4>>)

\* corpus: the same strings (a sample: those of full length whose first byte is a lead byte) as command-line tags
Utf8Params == { [s |-> s] : s \in { t \in Strs(MaxLen) : Len(t) = MaxLen /\ t[1] >= 192 } }
Utf8Case(p) ==
  LET tag == Pad8(U32Bytes(1) \o U32Bytes(8 + Len(p.s) + 1) \o p.s \o <<0>>) IN
  [mem |-> InfoImage(<<tag>>), al |-> 0,
   calls |-> <<[op |-> "load"], [op |-> "str", kind |-> "cmdline"]>>,
   desc |-> [area |-> "utf8", s |-> p.s]]
=============================================================================
