SPECIFICATION MCSpec
CONSTANT Params <- Round8Params
CONSTANT MkCase <- Round8Case
INVARIANT DesignAccepted
INVARIANT DesignControlled
INVARIANT Export
PROPERTY Terminates
CHECK_DEADLOCK FALSE
