------------------------------- MODULE MC_Info -------------------------------
(***************************************************************************)
(* Boot-information corpora built from the kind tables of MB2Info:         *)
(*   Fields  (C04)  every kind at its conformant size, two marker fills,   *)
(*                  every accessor                                         *)
(*   Getters (C04)  all sequences of up to MaxTags tags over a few kinds   *)
(*                  incl. duplicates, EFI-BS before / after / absent       *)
(*   Dst     (C05)  every variable-length kind at every declared size      *)
(*   Fb      (C04)  all 256 framebuffer type bytes, palette lengths        *)
(***************************************************************************)
EXTENDS MCBase

CONSTANTS MaxTags, DstExtra, MaxD, LCap, MaxN, ElfSizes, ElfRots, MaxStr, StrKinds

PadByte == 238          \* 0xEE in alignment padding
NbrByte == 221          \* 0xDD payload of the neighbouring tag
FillA(i) == (i * 7 + 13) % 251
FillB(i) == (i * 11 + 5) % 256
Fill(v, i) == IF v = 0 THEN FillA(i) ELSE FillB(i)

Override(b, off, x) == [i \in 1..Len(b) |-> IF i > off /\ i <= off + Len(x) THEN x[i - off] ELSE b[i]]

\* a tag of `size` bytes: type, size, then marker bytes (tag-relative positions)
RawTag(id, size, v) ==
  LET n == Max(size, 8) IN
  [i \in 1..n |-> IF i <= 4 THEN U32Bytes(id)[i] ELSE IF i <= 8 THEN U32Bytes(size)[i - 4] ELSE Fill(v, i - 1)]

Neighbour == U32Bytes(99) \o U32Bytes(16) \o [i \in 1..8 |-> NbrByte]
Pad8(b) == b \o [i \in 1..(RoundUp8(Len(b)) - Len(b)) |-> PadByte]
RECURSIVE Concat(_)
Concat(ss) == IF ss = <<>> THEN <<>> ELSE ss[1] \o Concat(Tail(ss))
\* region = header, padded tags, end tag
InfoImage(tags) ==
  LET body == Concat([i \in 1..Len(tags) |-> Pad8(tags[i])])
      T == 8 + Len(body) + 8 IN
  U32Bytes(T) \o <<0, 0, 0, 0>> \o body \o EndTagBytes

\* ---- conformant tag of each kind (enumerated / constrained bytes hold defined values) ------
ConformantSize(name) ==
  LET K == InfoKind(name) IN
  IF ~K.dst THEN K.wire
  ELSE CASE name = "mmap" -> 16 + 2 * 24
         [] name = "framebuffer" -> 32 + 6
         [] name = "efi_mmap" -> 16 + 2 * 40
         [] name = "elf" -> 20
         [] OTHER -> K.base + 11
ConformantTag(name, v) ==
  LET K == InfoKind(name)  t == RawTag(K.id, ConformantSize(name), v) IN
  CASE name = "mmap" -> Override(t, 8, U32Bytes(24))
    [] name = "framebuffer" -> Override(t, 29, <<1>>)
    [] name = "vbe" -> Override(t, 528 + 27, <<t[528 + 27 + 1] % 8>>)
    [] name = "efi_mmap" -> Override(Override(t, 8, U32Bytes(40)), 12, U32Bytes(1))
    [] name = "elf" -> Override(Override(Override(t, 8, U32Bytes(0)), 12, U32Bytes(40)), 16, U32Bytes(0))
    [] name = "rsdpv2" -> Override(t, 28, U32Bytes(36))
    [] name \in {"cmdline", "bootloader", "module"} ->
         \* text "ab\0" directly after the fixed part, markers (non-zero) before it would be invalid UTF-8 at random
         Override([i \in 1..Len(t) |-> IF i > K.base THEN 97 + (i % 3) ELSE t[i]], Len(t) - 1, <<0>>)
    [] OTHER -> t

SpecialFields(name) ==
  CASE name = "module" -> <<"module_size">>
    [] name = "mmap" -> <<"memory_areas">>
    [] name = "smbios" -> <<"tables">>
    [] name = "network" -> <<"payload">>
    [] name = "framebuffer" -> <<"buffer_type">>
    [] name = "rsdpv1" -> <<"signature", "oem_id", "checksum_is_valid">>
    [] name = "rsdpv2" -> <<"signature", "oem_id", "checksum_is_valid">>
    [] OTHER -> <<>>
AllFields(name) == [i \in 1..Len(FieldsOf(InfoKind(name))) |-> FieldsOf(InfoKind(name))[i].n] \o SpecialFields(name)
FieldCalls(name) == [i \in 1..Len(AllFields(name)) |-> [op |-> "field", kind |-> name, f |-> AllFields(name)[i]]]
StrCalls(name) == IF name \in {"cmdline", "bootloader", "module"} THEN <<[op |-> "str", kind |-> name]>> ELSE <<>>
AreaCalls(name) ==
  IF name # "mmap" THEN <<>>
  ELSE Concat([i \in 1..3 |-> [j \in 1..5 |-> [op |-> "area", i |-> i - 1,
                                             f |-> <<"at", "start_address", "size", "typ", "end_address">>[j]]]])
ReadCalls(name) == <<[op |-> "get", kind |-> name]>> \o FieldCalls(name) \o StrCalls(name) \o AreaCalls(name)
                   \o <<[op |-> "dbg", what |-> name]>>

\* ---- Fields corpus ---------------------------------------------------------------------------
FieldsParams == { [kind |-> n, v |-> v, pos |-> pos] : n \in InfoKindNames \ {"end"}, v \in {0, 1}, pos \in {0, 1} }
FieldsCase(p) ==
  [mem |-> InfoImage(IF p.pos = 0 THEN <<ConformantTag(p.kind, p.v), Neighbour>>
                     ELSE <<Neighbour, ConformantTag(p.kind, p.v)>>),
   al |-> 0,
   calls |-> <<[op |-> "load"]>> \o ReadCalls(p.kind) \o <<[op |-> "dbg", what |-> "bi"]>>,
   desc |-> [area |-> "fields"] @@ p]

\* ---- Getters corpus: multiplicity and order ----------------------------------------------------
GKinds == {"meminfo", "cmdline", "efi_bs", "efi_mmap", "load_base_addr", "module"}
RECURSIVE SeqsUpTo(_, _)
SeqsUpTo(S, n) == IF n = 0 THEN {<<>>} ELSE {<<>>} \cup { <<x>> \o r : x \in S, r \in SeqsUpTo(S, n - 1) }
GettersParams == { [ks |-> ks] : ks \in SeqsUpTo(GKinds, MaxTags) }
\* the i-th tag of a sequence uses fill i % 2 so that duplicates differ
GettersCase(p) ==
  [mem |-> InfoImage([i \in 1..Len(p.ks) |-> ConformantTag(p.ks[i], i % 2)]),
   al |-> 0,
   calls |-> <<[op |-> "load"]>>
             \o Concat([i \in 1..6 |-> LET n == <<"meminfo", "cmdline", "efi_bs", "efi_mmap", "load_base_addr", "module">>[i] IN
                                       <<[op |-> "get", kind |-> n]>>])
             \o <<[op |-> "field", kind |-> "meminfo", f |-> "memory_lower"],
                  [op |-> "field", kind |-> "load_base_addr", f |-> "load_base_addr"],
                  [op |-> "field", kind |-> "module", f |-> "start_address"],
                  [op |-> "str", kind |-> "cmdline"], [op |-> "get", kind |-> "apm"]>>,
   desc |-> [area |-> "getters"] @@ p]

\* ---- Dst corpus: every declared size of every variable-length kind ---------------------------------
DstKinds == {n \in InfoKindNames : InfoKind(n).dst}
DstSizes(name) == LET K == InfoKind(name) IN 0..(K.base + 3 * K.elem + DstExtra)
DstParams == UNION { { [kind |-> n, size |-> s] : s \in DstSizes(n) } : n \in DstKinds }
             \cup { [kind |-> n, size |-> s] : n \in DstKinds, s \in {200, 1000, 16777216} }
\* the tag is given room for min(size, 120) bytes; a size beyond that runs over the neighbour / the region
DstTag(name, size) ==
  LET K == InfoKind(name)
      room == RoundUp8(Max(8, Min(size, 120)))
      t == [i \in 1..room |-> IF i <= 4 THEN U32Bytes(K.id)[i] ELSE IF i <= 8 THEN U32Bytes(size)[i - 4]
                              ELSE IF i <= size THEN FillA(i - 1) ELSE PadByte] IN
  CASE name = "mmap" -> Override(t, 8, U32Bytes(24))
    [] name = "framebuffer" -> IF room > 29 THEN Override(t, 29, <<2>>) ELSE t
    [] name \in {"cmdline", "bootloader", "module"} ->
         [i \in 1..room |-> IF i > K.base /\ i <= size THEN (IF i = size THEN 0 ELSE 97 + (i % 3)) ELSE t[i]]
    [] OTHER -> t
DstCase(p) ==
  [mem |-> InfoImage(<<DstTag(p.kind, p.size), Neighbour>>),
   al |-> 0,
   calls |-> <<[op |-> "load"]>> \o ReadCalls(p.kind),
   desc |-> [area |-> "dst"] @@ p]

\* ---- Fb corpus: all framebuffer type bytes x colour-info lengths ----------------------------------
FbParams == { [tb |-> tb, blen |-> bl, nc |-> nc] : tb \in 0..255, bl \in {0, 1, 2, 5, 6, 8, 11}, nc \in {0} }
            \cup { [tb |-> tb, blen |-> bl, nc |-> nc] : tb \in {0, 1, 2}, bl \in 0..17, nc \in 0..6 \cup {255, 65535} }
FbTag(p) ==
  LET size == 32 + p.blen
      t == RawTag(8, size, 0) IN
  Override(Override(t, 29, <<p.tb>>), 32, SubSeq(U16Bytes(p.nc) \o [i \in 1..16 |-> i], 1, p.blen))
FbCase(p) ==
  [mem |-> InfoImage(<<FbTag(p), Neighbour>>), al |-> 0,
   calls |-> <<[op |-> "load"], [op |-> "get", kind |-> "framebuffer"],
               [op |-> "field", kind |-> "framebuffer", f |-> "buffer_type"],
               [op |-> "field", kind |-> "framebuffer", f |-> "bpp"],
               [op |-> "dbg", what |-> "framebuffer"]>>,
   desc |-> [area |-> "fb"] @@ p]

\* ---- Efi corpus (C18): descriptor size x version x map length, all prefixes of the iteration ------------
\* environment plan: create, then (len, next) past the naive count, size_hint, a clone, Debug
EfiSizes == 0..MaxD
EfiParamsSet == UNION { { [d |-> d, v |-> v, L |-> L] : L \in 0..Min(3 * d + 9, LCap) } : d \in EfiSizes, v \in {0, 1, 2} }
EfiTag(p) == Override(Override(RawTag(17, 16 + p.L, 0), 8, U32Bytes(p.d)), 12, U32Bytes(p.v))
EfiNaive(p) == Min(IF p.d = 0 THEN 4 ELSE p.L \div p.d, 4)
EfiCase(p) ==
  [mem |-> InfoImage(<<EfiTag(p), Neighbour>>), al |-> 0,
   calls |-> <<[op |-> "load"], [op |-> "efi_areas", it |-> 0], [op |-> "len", it |-> 0],
               [op |-> "size_hint", it |-> 0], [op |-> "next", it |-> 0], [op |-> "clone", it |-> 0, to |-> 1]>>
             \o Concat([i \in 1..(EfiNaive(p) + 1) |-> <<[op |-> "len", it |-> 0], [op |-> "next", it |-> 0]>>])
             \o <<[op |-> "len", it |-> 1], [op |-> "next", it |-> 1], [op |-> "size_hint", it |-> 1],
                  [op |-> "dbg", what |-> "efi_mmap"]>>,
   desc |-> [area |-> "efi"] @@ p]

\* ---- Elf corpus (C19): count x entry size x string-table index x section bytes x raw types --------------
ExtAddr == <<0, 0, 0, 16, 0, 0, 0, 0>>             \* 0x1000_0000: where the harness maps the string table
ExtData == <<0, 46, 116, 101, 120, 116, 0, 46, 195, 169, 0, 255, 0>>   \* "\0.text\0.<e-acute>\0<invalid>\0"
RawTypes == << <<0, 0, 0, 0>>, <<1, 0, 0, 0>>, <<11, 0, 0, 0>>, <<12, 0, 0, 0>>, <<255, 255, 255, 95>>,
               <<0, 0, 0, 96>>, <<255, 255, 255, 111>>, <<0, 0, 0, 112>>, <<255, 255, 255, 127>>, <<0, 0, 0, 128>> >>
NameIdx == <<1, 7, 11, 0>>
\* entry i of an ELF table with entry size es: markers, a raw type from the rotation, a valid name index,
\* and (for the string-table entry) the external address
ElfEntryBytes(es, i, rot, isStr) ==
  LET b == [j \in 1..es |-> FillB(i * 64 + j)]
      withT == IF es >= 8 THEN Override(Override(b, 0, U32Bytes(NameIdx[(i % 4) + 1])), 4, RawTypes[((i + rot) % 10) + 1]) ELSE b IN
  IF ~isStr THEN withT
  ELSE IF es = 40 THEN Override(withT, 12, SubSeq(ExtAddr, 1, 4))
  ELSE IF es = 64 THEN Override(withT, 16, ExtAddr) ELSE withT
ElfParamsSet ==
  UNION { { [n |-> n, es |-> es, shndx |-> sh, slen |-> sl, rot |-> rot]
            : sh \in 0..(n + 1), sl \in {0, Max(es * n, 1) - 1, es * n, es * n + 8}, rot \in ElfRots }
          : n \in 0..MaxN, es \in ElfSizes }
ElfTag(p) ==
  LET body == Concat([i \in 1..p.n |-> ElfEntryBytes(p.es, i - 1, p.rot, i - 1 = p.shndx)])
      sec == [j \in 1..p.slen |-> IF j <= Len(body) THEN body[j] ELSE FillA(j)] IN
  U32Bytes(9) \o U32Bytes(20 + p.slen) \o U32Bytes(p.n) \o U32Bytes(p.es) \o U32Bytes(p.shndx) \o sec
ElfNamesOk(p) == p.es \in {40, 64} /\ p.shndx < p.n /\ p.es * p.n <= p.slen
ElfCase(p) ==
  [mem |-> InfoImage(<<ElfTag(p), Neighbour>>), al |-> 0,
   ext |-> [addr |-> ExtAddr, data |-> ExtData],
   calls |-> <<[op |-> "load"], [op |-> "field", kind |-> "elf", f |-> "number_of_sections"],
               [op |-> "elf_sections", it |-> 0]>>
             \o [i \in 1..(p.n + 2) |-> [op |-> "next", it |-> 0, names |-> ElfNamesOk(p)]]
             \o <<[op |-> "elf_sections_deprecated", it |-> 1], [op |-> "next", it |-> 1, names |-> FALSE],
                  [op |-> "dbg", what |-> "elf"]>>,
   desc |-> [area |-> "elf"] @@ p]

\* ---- Str corpus (C17): all strings over a small alphabet, every cut of the declared size -----------------------
StrAlphabet == {0, 97, 195, 169, 226, 130, 172, 240, 128, 255}     \* NUL, 'a', pieces of 2/3/4-byte sequences, invalid
RECURSIVE StrsUpTo(_)
StrsUpTo(n) == IF n = 0 THEN {<<>>} ELSE {<<>>} \cup { <<x>> \o r : x \in StrAlphabet, r \in StrsUpTo(n - 1) }
StrParams == UNION { { [kind |-> k, s |-> s, m |-> m] : m \in 0..Len(s) } : k \in StrKinds, s \in StrsUpTo(MaxStr) }
\* the tag declares base + m bytes; the rest of s lies in the padding / runs into the following bytes
StrTag(p) ==
  LET K == InfoKind(p.kind)
      fixed == IF p.kind = "module" THEN <<1, 0, 0, 0, 2, 0, 0, 0>> ELSE <<>> IN
  Pad8(U32Bytes(K.id) \o U32Bytes(K.base + p.m) \o fixed \o p.s)
StrCase(p) ==
  LET body == StrTag(p) \o Pad8(Neighbour)  T == 8 + Len(body) + 8 IN
  [mem |-> U32Bytes(T) \o <<0, 0, 0, 0>> \o body \o EndTagBytes, al |-> 0,
   calls |-> <<[op |-> "load"], [op |-> "str", kind |-> p.kind], [op |-> "get", kind |-> p.kind]>>,
   desc |-> [area |-> "str"] @@ p]

\* ---- table sanity (evaluated once by TLC) -------------------------------------------------------------
ASSUME \A n \in InfoKindNames : FieldsWellFormed(InfoKind(n))
ASSUME \A n, m \in InfoKindNames : n # m => InfoKind(n).id # InfoKind(m).id
ASSUME {InfoKind(n).id : n \in InfoKindNames} = 0..21
\* wire sizes of the Multiboot2 specification (3.6.x)
ASSUME /\ InfoKind("meminfo").wire = 16 /\ InfoKind("bootdev").wire = 20 /\ InfoKind("apm").wire = 28
       /\ InfoKind("vbe").wire = 784 /\ InfoKind("efi32").wire = 12 /\ InfoKind("efi64").wire = 16
       /\ InfoKind("rsdpv1").wire = 8 + 20 /\ InfoKind("rsdpv2").wire = 8 + 36
       /\ InfoKind("efi32_ih").wire = 12 /\ InfoKind("efi64_ih").wire = 16 /\ InfoKind("load_base_addr").wire = 12
       /\ InfoKind("efi_bs").wire = 8 /\ InfoKind("end").wire = 8
       /\ VbeMode - VbeCtrl = 512 /\ InfoKind("vbe").wire - VbeMode = 256
=============================================================================
