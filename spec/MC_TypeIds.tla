------------------------------ MODULE MC_TypeIds ------------------------------
(* C20: conversions at every interval end point +-2 and on structured values; table sanity; table export. *)
EXTENDS MCBase

ASSUME IsPartition(TagTypeTable) /\ IsPartition(MemAreaTable) /\ IsPartition(ElfTypeTable)
ASSUME TablesAgree
ASSUME \A n \in InfoKindNames : TagTypeNames[InfoKind(n).id + 1] = KindVariant(n)
ASSUME PrintT(<<"TABLES", ToJson(Tables)>>)

Structured == { <<0, 1, 0, 0>>, <<0, 0, 1, 0>>, <<0, 0, 0, 1>>, <<3, 0, 0, 1>>, <<21, 1, 0, 0>>, <<5, 0, 1, 0>>,
                <<137, 98, 215, 54>>, <<214, 80, 82, 232>>, <<1, 0, 0, 128>>, <<255, 255, 255, 254>> }
Vals == EndPoints(TagTypeTable) \cup EndPoints(MemAreaTable) \cup EndPoints(ElfTypeTable) \cup Structured
\* partner values for the equality relations: the value itself, its successor, a value differing in the top byte only
Partners(x) == {x, LimbBytes(LimbAdd(Limb(x), One)), <<x[1], x[2], x[3], (x[4] + 128) % 256>>}
TypeIdsParams == UNION { { [x |-> x, y |-> y] : y \in Partners(x) } : x \in Vals }
TypeIdsCase(p) ==
  [mem |-> <<>>, al |-> 0,
   calls |-> <<[op |-> "conv_tag_type", x |-> p.x, y |-> p.y], [op |-> "conv_mem_area_type", x |-> p.x, y |-> p.y],
               [op |-> "conv_elf_type", x |-> p.x], [op |-> "magic"]>>,
   desc |-> [area |-> "typeids"] @@ p]
=============================================================================
