----------------------------- MODULE MC_RefSlice -----------------------------
(* C14: all slice lengths x start alignments x declared sizes x header kinds. *)
EXTENDS MCBase

CONSTANTS MaxLen, MaxDecl, HeaderNames

Marker(i) == (i * 7 + 3) % 251
\* header bytes: enumerated fields hold defined values (type 1 / arch 0 / flags 0)
HeaderBytes(H, declared) ==
  CASE H.name = "bi"    -> U32Bytes(declared) \o <<165, 90, 60, 195>>       \* a reserved word a boot loader left dirty
    [] H.name = "tag"   -> <<1, 0, 0, 0>> \o U32Bytes(declared)
    [] H.name = "mb"    -> <<214, 80, 82, 232>> \o <<0, 0, 0, 0>> \o U32Bytes(declared) \o <<0, 0, 0, 0>>
    [] H.name = "htag"  -> <<1, 0, 0, 0>> \o U32Bytes(declared)
    [] H.name = "dummy" -> <<255, 255, 255, 255>> \o U32Bytes(declared)
    [] H.name = "h12"   -> <<1, 0, 0, 0>> \o U32Bytes(declared) \o <<187, 204, 221, 238>>
    [] H.name = "h4"    -> U32Bytes(declared)

Image(H, len, declared) ==
  LET hb == HeaderBytes(H, declared) IN
  [i \in 1..len |-> IF i <= Len(hb) THEN hb[i] ELSE Marker(i)]

RSParams == { [h |-> H.name, len |-> len, al |-> a, declared |-> d]
              : H \in {x \in Headers : x.name \in HeaderNames}, len \in 0..MaxLen, a \in 0..7, d \in 0..MaxDecl }
RSCase(p) ==
  [mem |-> Image(HeaderByName(p.h), p.len, p.declared), al |-> p.al,
   calls |-> <<[op |-> "bytes_ref", h |-> p.h], [op |-> "ref_from_slice", h |-> p.h], [op |-> "ref_from_bytes", h |-> p.h]>>
             \o (IF p.h # "mb" /\ p.al = 0 /\ p.len % 8 = 0 THEN <<[op |-> "clone_ref", h |-> p.h]>> ELSE <<>>),
   desc |-> [area |-> "refslice"] @@ p]
=============================================================================
