SPECIFICATION MCSpec
CONSTANT Params <- LParams
CONSTANT MkCase <- LCase
CONSTANT MaxT = 72
INVARIANT DesignAccepted
INVARIANT DesignControlled
INVARIANT Export
PROPERTY Terminates
CHECK_DEADLOCK FALSE
