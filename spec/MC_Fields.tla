------------------------------ MODULE MC_Fields ------------------------------
EXTENDS MCInfoLib

\* ---- Fields corpus ---------------------------------------------------------------------------
FieldsParams == { [kind |-> n, v |-> v, pos |-> pos] : n \in InfoKindNames \ {"end"}, v \in {0, 1, 2, 3, 4}, pos \in {0, 1} }
FieldsCase(p) ==
  [mem |-> InfoImage(IF p.pos = 0 THEN <<ConformantTag(p.kind, p.v), Neighbour>>
                     ELSE <<Neighbour, ConformantTag(p.kind, p.v)>>),
   al |-> 0,
   calls |-> <<[op |-> "load"]>> \o ReadCalls(p.kind) \o <<[op |-> "dbg", what |-> "bi"]>>,
   desc |-> [area |-> "fields"] @@ p]
=============================================================================
