SPECIFICATION MCSpec
CONSTANT Params <- GettersParams
CONSTANT MkCase <- GettersCase
CONSTANT MaxTags = 3
INVARIANT DesignAccepted
INVARIANT DesignControlled
INVARIANT Export
PROPERTY Terminates
CHECK_DEADLOCK FALSE
