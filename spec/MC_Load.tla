------------------------------- MODULE MC_Load -------------------------------
(* C02: all total sizes x reserved word x contents of the last 8 bytes; null pointer. *)
EXTENDS MCBase

CONSTANTS MaxT

Marker(i) == (i * 5 + 1) % 251
EndTypes == {0, 1, 256}
EndSizes == {0, 8, 9, 16}
\* mid: what lies between the header and the last 8 bytes - marker bytes, or end-tag look-alikes (every 8-byte chunk
\* reads type 0, size 8): only the LAST 8 bytes decide whether the region has its end tag
LParams == { [T |-> T, res |-> r, et |-> et, es |-> es, null |-> FALSE, mid |-> m]
             : T \in 0..MaxT, r \in {0, 255}, et \in EndTypes, es \in EndSizes, m \in {"marker", "endlike"} }
           \cup { [T |-> 16, res |-> 0, et |-> 0, es |-> 8, null |-> TRUE, mid |-> "marker"] }

\* region of max(8, T) bytes: header, markers, the last 8 bytes of [0, T) are the end-tag candidate
LImage(p) ==
  LET n == Max(8, p.T)
      hdr == U32Bytes(p.T) \o <<p.res, p.res, p.res, p.res>>
      tail == U32Bytes(p.et) \o U32Bytes(p.es) IN
  [i \in 1..n |-> IF i <= 8 THEN hdr[i]
                  ELSE IF p.T >= 16 /\ i > p.T - 8 THEN tail[i - (p.T - 8)]
                  ELSE IF p.mid = "endlike" THEN EndTagBytes[((i - 1) % 8) + 1]
                  ELSE Marker(i)]

LCase(p) ==
  [mem |-> LImage(p), al |-> 0,
   calls |-> <<[op |-> "load", null |-> p.null], [op |-> "tags", it |-> 0], [op |-> "next", it |-> 0]>>,
   desc |-> [area |-> "load"] @@ p]
=============================================================================
