------------------------------- MODULE MC_Load -------------------------------
(* C02: all total sizes x reserved word x contents of the last 8 bytes; null pointer. *)
EXTENDS MCBase

CONSTANTS MaxT

Marker(i) == (i * 5 + 1) % 251
EndTypes == {0, 1, 256}
EndSizes == {0, 8, 9, 16}
LParams == { [T |-> T, res |-> r, et |-> et, es |-> es, null |-> FALSE]
             : T \in 0..MaxT, r \in {0, 255}, et \in EndTypes, es \in EndSizes }
           \cup { [T |-> 16, res |-> 0, et |-> 0, es |-> 8, null |-> TRUE] }

\* region of max(8, T) bytes: header, markers, the last 8 bytes of [0, T) are the end-tag candidate
LImage(p) ==
  LET n == Max(8, p.T)
      hdr == U32Bytes(p.T) \o <<p.res, p.res, p.res, p.res>>
      tail == U32Bytes(p.et) \o U32Bytes(p.es) IN
  [i \in 1..n |-> IF i <= 8 THEN hdr[i]
                  ELSE IF p.T >= 16 /\ i > p.T - 8 THEN tail[i - (p.T - 8)]
                  ELSE Marker(i)]

LCase(p) ==
  [mem |-> LImage(p), al |-> 0,
   calls |-> <<[op |-> "load", null |-> p.null], [op |-> "tags", it |-> 0], [op |-> "next", it |-> 0]>>,
   desc |-> [area |-> "load"] @@ p]
=============================================================================
