SPECIFICATION MCSpec
CONSTANT Params <- StrParamsAll
CONSTANT MkCase <- StrCase
CONSTANT MaxStr = 3
CONSTANT StrKinds = {"cmdline", "bootloader", "module"}
INVARIANT DesignAccepted
INVARIANT DesignControlled
INVARIANT Export
PROPERTY Terminates
CHECK_DEADLOCK FALSE
