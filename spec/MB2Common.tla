------------------------------ MODULE MB2Common ------------------------------
(***************************************************************************)
(* multiboot2-common: header descriptors, BytesRef, DynSizedStructure       *)
(* (ref_from_slice), the generic tag walk / TagIter, cast, new_boxed.       *)
(*                                                                         *)
(* Two layers:                                                             *)
(*   *Spec / Accept*  - declarative: what the property statements demand   *)
(*   Design*          - constructive: the steps the code takes             *)
(* TLC checks Design |= Accept in the MC_* models; trace validation checks *)
(* implementation |= Accept.                                               *)
(***************************************************************************)
EXTENDS MB2Bytes

\* ---- header descriptors -----------------------------------------------------
\* hsize: size_of::<H>(); sizeOff: offset of the u32 holding the declared total size
\* checked: payload_len() asserts size >= hsize (controlled panic) instead of subtracting blindly
HBI    == [name |-> "bi",    hsize |-> 8,  sizeOff |-> 0, checked |-> FALSE]  \* BootInformationHeader
HTAG   == [name |-> "tag",   hsize |-> 8,  sizeOff |-> 4, checked |-> TRUE]   \* TagHeader
HMB    == [name |-> "mb",    hsize |-> 16, sizeOff |-> 8, checked |-> FALSE]  \* Multiboot2BasicHeader
HHTAG  == [name |-> "htag",  hsize |-> 8,  sizeOff |-> 4, checked |-> FALSE]  \* HeaderTagHeader
HDUMMY == [name |-> "dummy", hsize |-> 8,  sizeOff |-> 4, checked |-> FALSE]  \* test_utils::DummyTestHeader
\* headers a user of the generic functions may define (the harness does): sizes that are not a multiple of 8
H12    == [name |-> "h12",   hsize |-> 12, sizeOff |-> 4, checked |-> TRUE]   \* type, size, one more word
H4     == [name |-> "h4",    hsize |-> 4,  sizeOff |-> 0, checked |-> TRUE]   \* the size alone
Headers == {HBI, HTAG, HMB, HHTAG, HDUMMY, H12, H4}
HeaderByName(n) == CHOOSE h \in Headers : h.name = n

\* ---- C14: BytesRef ----------------------------------------------------------------
BytesRefSpec(H, len, amod8) ==
  IF len < H.hsize THEN Err("ShorterThanHeader")
  ELSE IF amod8 # 0 THEN Err("WrongAlignment")
  ELSE IF len % 8 # 0 THEN Err("MissingPadding")
  ELSE Ok([at |-> 0, len |-> len])

AcceptBytesRef(H, len, amod8, o) ==
  LET s == BytesRefSpec(H, len, amod8) IN
  IF s.k = "err" THEN o.k = "err" /\ o.e = s.e
  ELSE o.k = "ok" /\ o.v.at = 0 /\ o.v.len = len

\* ---- C14: ref_from_slice, declarative -------------------------------------------
\* "free": the statement leaves the outcome open (declared size < header size) but bounds it
RefFromSliceSpec(H, len, amod8, declared) ==
  IF len < H.hsize THEN Err("ShorterThanHeader")
  ELSE IF amod8 # 0 THEN Err("WrongAlignment")
  ELSE IF len % 8 # 0 THEN Err("MissingPadding")
  ELSE IF declared > len THEN Err("InvalidReportedTotalSize")
  ELSE IF declared < H.hsize THEN [k |-> "free", maxsv |-> H.hsize]
  ELSE Ok([at |-> 0, hat |-> 0, pat |-> H.hsize, plen |-> declared - H.hsize, sv |-> RoundUp8(declared)])

\* o.v: at (structure), hat (header), pat (payload) offsets relative to the slice start;
\* plen = payload().len(); sv = size_of_val
AcceptRefFromSlice(H, len, amod8, declared, o) ==
  LET s == RefFromSliceSpec(H, len, amod8, declared) IN
  IF s.k = "free"
  THEN o.k \in {"panic", "err"} \/ (o.k = "ok" /\ o.v.at = 0 /\ o.v.sv <= s.maxsv /\ o.v.plen = 0)
  ELSE IF s.k = "err" THEN o.k = "err" /\ o.e = s.e
  ELSE /\ o.k = "ok"
       /\ o.v.at = 0 /\ o.v.hat = 0 /\ o.v.pat = s.v.pat
       /\ o.v.plen = s.v.plen /\ o.v.sv = s.v.sv
       /\ o.v.sv <= len /\ o.v.sv % 8 = 0 /\ o.v.sv >= declared /\ o.v.sv < declared + 8

\* ---- C14: ref_from_slice, reference design (one operator per code step) -----------
\* step 1  BytesRef::try_from
\* step 2  payload_len(): declared - hsize; a checked header panics, an unchecked one is
\*         specified here as "total_size is the stored word" (no subtraction at all)
\* step 3  compare the declared TOTAL size with the slice length
\* step 4  fat pointer with metadata = payload length
DesignRefFromSlice(H, len, amod8, declared) ==
  LET br == BytesRefSpec(H, len, amod8) IN
  IF br.k = "err" THEN br
  ELSE IF declared < H.hsize THEN (IF H.checked THEN Panic ELSE Err("InvalidReportedTotalSize"))
  ELSE IF declared > len THEN Err("InvalidReportedTotalSize")
  ELSE Ok([at |-> 0, hat |-> 0, pat |-> H.hsize, plen |-> declared - H.hsize,
           sv |-> RoundUp8(H.hsize + (declared - H.hsize))])

\* ---- the specification's tag walk (C03 / C11) ----------------------------------------
\* Items between byte offsets [from, end) of mem; all tag-level headers keep their size at +4.
\* fin = "none": the walk tiles the region; "panic": it meets a size < 8 or leaves the region.
RECURSIVE WalkFrom(_, _, _, _)
WalkFrom(mem, off, end, acc) ==
  IF off >= end THEN [items |-> acc, fin |-> IF off = end THEN "none" ELSE "panic"]
  ELSE IF off + 8 > end THEN [items |-> acc, fin |-> "panic"]
  ELSE LET sz == U32At(mem, off + 4) IN
       IF sz < 8 \/ sz > end - off \/ RoundUp8(sz) > end - off THEN [items |-> acc, fin |-> "panic"]
       ELSE WalkFrom(mem, off + RoundUp8(sz), end,
                     Append(acc, [at |-> off, typ |-> Bytes(mem, off, 4), size |-> sz]))

\* k-th call of next() (k = items already yielded by this iterator or its ancestors)
\* dead = an earlier next() of this iterator panicked
AcceptTagNext(w, k, dead, o) ==
  IF dead THEN o.k \in {"panic", "none"}
  ELSE IF k < Len(w.items) THEN
       LET it == w.items[k + 1] IN
       /\ o.k = "some"
       /\ o.v.at = it.at /\ o.v.typ = it.typ /\ o.v.size = U32Bytes(it.size)
       /\ o.v.pat = it.at + 8 /\ o.v.plen = it.size - 8 /\ o.v.sv = RoundUp8(it.size)
  ELSE IF w.fin = "none" THEN o.k = "none"
  ELSE o.k = "panic"

\* reference design of TagIter::next as a cursor machine over the payload slice [from, end)
\* state: cur (absolute offset), dead
DesignTagNext(mem, end, cur, dead) ==
  IF dead THEN [o |-> Panic, cur |-> cur, dead |-> TRUE]
  ELSE IF cur = end THEN [o |-> None, cur |-> cur, dead |-> FALSE]
  ELSE IF cur > end \/ cur + 8 > end THEN [o |-> Panic, cur |-> cur, dead |-> TRUE]
  ELSE LET sz == U32At(mem, cur + 4) IN
       IF sz < 8 THEN [o |-> Panic, cur |-> cur, dead |-> TRUE]                  \* payload_len assertion
       ELSE LET to == cur + RoundUp8(sz) IN
            IF to > end THEN [o |-> Panic, cur |-> Min(to, Far), dead |-> TRUE]  \* NextPanicAdvances
            ELSE [o |-> Some([at |-> cur, typ |-> Bytes(mem, cur, 4), size |-> U32Bytes(sz),
                              pat |-> cur + 8, plen |-> sz - 8, sv |-> RoundUp8(sz)]),
                  cur |-> to, dead |-> FALSE]

FirstOfType(w, typ) == LET S == {i \in 1..Len(w.items) : w.items[i].typ = typ} IN
                       IF S = {} THEN 0 ELSE CHOOSE i \in S : \A j \in S : i <= j
ItemsOfType(w, typ) == SelectSeq(w.items, LAMBDA it : it.typ = typ)

\* ---- C05 / C15: typed views ------------------------------------------------------------
\* Rust repr(C) layout of  struct { fixed...; tail: [E] }  with struct alignment sa
SizeOfVal(fixedEnd, elemSize, elemAlign, n, sa) ==
  RoundUp(RoundUp(fixedEnd, elemAlign) + n * elemSize, sa)
\* C15: any cast either panics or yields a view of exactly the tag's rounded size at the tag's address
AcceptCast(tagAt, sz, o) ==
  o.k = "panic" \/ (o.k = "ok" /\ o.v.at = tagAt /\ o.v.sv = RoundUp8(sz))
\* reference design of cast for a DST type: metadata from dst_len, then the size assertion
DesignCastDst(tagAt, fixedEnd, elemSize, elemAlign, sz) ==
  IF sz < fixedEnd \/ (sz - fixedEnd) % elemSize # 0 THEN Panic
  ELSE LET n == (sz - fixedEnd) \div elemSize
           sv == SizeOfVal(fixedEnd, elemSize, elemAlign, n, 8) IN
       IF sv = RoundUp8(sz) THEN Ok([at |-> tagAt, sv |-> sv, n |-> n]) ELSE Panic
\* (structSize = size_of the target type: a multiple of its own alignment, not necessarily of 8)
DesignCastSized(tagAt, structSize, sz) ==
  IF structSize = RoundUp8(sz) THEN Ok([at |-> tagAt, sv |-> structSize]) ELSE Panic
=============================================================================
