SPECIFICATION MCSpec
CONSTANT Params <- XCastParams
CONSTANT MkCase <- XCastCase
INVARIANT DesignAccepted
INVARIANT DesignControlled
INVARIANT Export
PROPERTY Terminates
CHECK_DEADLOCK FALSE
