------------------------------ MODULE MC_Sized ------------------------------
EXTENDS MCInfoLib
CONSTANTS SizedSpread

\* ---- Sized corpus (C15 / C01): every fixed-size kind at declared sizes around its wire size and at 8 ------------------------
SizedKinds == {n \in InfoKindNames : ~InfoKind(n).dst}
SizedSizes(name) == LET Kw == InfoKind(name).wire IN {8, 12, 16, 24} \cup (Max(Kw - SizedSpread, 8)..(Kw + SizedSpread))
SizedParams == UNION { { [kind |-> n, size |-> s, atEnd |-> e] : s \in SizedSizes(n), e \in BOOLEAN } : n \in SizedKinds }
\* the tag occupies RoundUp8(size) bytes; a view of the full struct would reach into what follows
SizedTag(name, size) ==
  LET K == InfoKind(name)
      t == [i \in 1..RoundUp8(size) |-> IF i <= 4 THEN U32Bytes(K.id)[i] ELSE IF i <= 8 THEN U32Bytes(size)[i - 4]
                                       ELSE IF i <= size THEN FillA(i - 1) ELSE PadByte] IN
  IF name = "vbe" /\ Len(t) > 528 + 27 THEN Override(t, 528 + 27, <<t[528 + 27 + 1] % 8>>) ELSE t
SizedCase(p) ==
  [mem |-> InfoImage(IF p.atEnd THEN <<Neighbour, SizedTag(p.kind, p.size)>> ELSE <<SizedTag(p.kind, p.size), Neighbour>>),
   al |-> 0,
   calls |-> <<[op |-> "load"], [op |-> "get", kind |-> p.kind]>>
             \o (LET fc == FieldCalls(p.kind) IN IF Len(fc) > 6 THEN SubSeq(fc, 1, 3) \o SubSeq(fc, Len(fc) - 2, Len(fc)) ELSE fc)
             \o <<[op |-> "dbg", what |-> p.kind]>>,
   desc |-> [area |-> "sized"] @@ p]
=============================================================================
