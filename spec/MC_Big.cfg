SPECIFICATION MCSpec
CONSTANT Params <- BigParams
CONSTANT MkCase <- BigCase
CONSTANT HugeLen8s = {}
CONSTANT MaxPow = 20
INVARIANT DesignAccepted
INVARIANT DesignControlled
INVARIANT Export
PROPERTY Terminates
CHECK_DEADLOCK FALSE
