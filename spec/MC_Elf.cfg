SPECIFICATION MCSpec
CONSTANT Params <- ElfParamsAll
CONSTANT MkCase <- ElfCase
CONSTANT MaxN = 3
CONSTANT ElfSizes = {0, 8, 39, 40, 41, 64, 72}
CONSTANT ElfRots = {0, 3, 6, 7}
INVARIANT DesignAccepted
INVARIANT DesignControlled
INVARIANT Export
PROPERTY Terminates
CHECK_DEADLOCK FALSE
