------------------------------- MODULE MC_Walk -------------------------------
(***************************************************************************)
(* C03: canonical walk images by lazy header choice: a (type, size) header *)
(* is chosen only where the walk arrives; everything else is marker bytes. *)
(* The last 8 bytes always hold the end tag so that the region loads.      *)
(***************************************************************************)
EXTENDS MCBase

CONSTANTS MaxT

Types == {0, 3, 99}
Marker(i) == ((i * 3 + 7) % 249) + 1

\* header sequences reachable by a walk from off in a region of T bytes (end tag forced at T-8)
RECURSIVE WalkSeqs(_, _)
WalkSeqs(off, T) ==
  IF off >= T - 8 THEN {<<>>}
  ELSE UNION { IF s >= 8 /\ off + RoundUp8(s) <= T
               THEN { <<[typ |-> t, size |-> s]>> \o r : r \in WalkSeqs(off + RoundUp8(s), T) }
               ELSE { <<[typ |-> t, size |-> s]>> }
               : t \in Types, s \in 0..(T - off + 9) }

\* look: the bytes the walk does not arrive at are markers, or end-tag look-alikes (every 8-byte chunk of every payload
\* reads type 0, size 8): the walk goes by the stored sizes, never by what the bytes in between look like
WParams == UNION { { [T |-> T, hs |-> hs, look |-> lk] : hs \in WalkSeqs(8, T), lk \in {"marker", "endlike", "desc"} } : T \in {x \in 16..MaxT : x % 8 = 0} }

RECURSIVE Place(_, _, _)
\* byte image with the chosen headers placed along the walk
Place(mem, off, hs) ==
  IF hs = <<>> THEN mem
  ELSE LET h == hs[1]  hb == U32Bytes(h.typ) \o U32Bytes(h.size) IN
       Place([i \in 1..Len(mem) |-> IF i > off /\ i <= off + 8 THEN hb[i - off] ELSE mem[i]],
             off + RoundUp8(h.size), Tail(hs))

WImage(p) ==
  \* ("desc": marker bytes descending with the position - of two adjacent words the later one is the smaller, e.g. a
  \*  module tag whose end address lies below its start address; such a tag is a module tag like any other)
  LET base == [i \in 1..p.T |-> IF p.look = "endlike" THEN EndTagBytes[((i - 1) % 8) + 1]
                                ELSE IF p.look = "desc" THEN 250 - ((i * 3) % 249) ELSE Marker(i)]
      withH == Place(base, 8, p.hs)
      hdr == U32Bytes(p.T) \o <<0, 0, 0, 0>> IN
  [i \in 1..p.T |-> IF i <= 8 THEN hdr[i]
                    ELSE IF i > p.T - 8 THEN EndTagBytes[i - (p.T - 8)]
                    ELSE withH[i]]

Rep(call, n) == [i \in 1..n |-> call]
\* environment plan (does not follow the design): drain a tag iterator, a clone taken after
\* the first item, and the module iterator, each two calls past the naive item count
WCase(p) ==
  LET n == Len(p.hs) + 3 IN
  [mem |-> WImage(p), al |-> 0,
   calls |-> <<[op |-> "load"], [op |-> "tags", it |-> 0], [op |-> "next", it |-> 0], [op |-> "size_hint", it |-> 0],
               [op |-> "for_each", it |-> 0],                       \* a partially consumed iterator finished by for_each (on a copy)
               [op |-> "clone", it |-> 0, to |-> 1]>>
             \o <<[op |-> "last", it |-> 0], [op |-> "count", it |-> 0], [op |-> "clone", it |-> 0, to |-> 3], [op |-> "nth", it |-> 3, n |-> 1],
                  [op |-> "nth", it |-> 3, n |-> 0], [op |-> "nth", it |-> 3, n |-> 5], [op |-> "next", it |-> 3],
                  \* overshooting skip from a position that is not the end, then next(): the iterator must stay exhausted
                  [op |-> "tags", it |-> 4], [op |-> "nth", it |-> 4, n |-> 7], [op |-> "next", it |-> 4], [op |-> "count", it |-> 4]>>
             \o Rep([op |-> "next", it |-> 0], n) \o <<[op |-> "size_hint", it |-> 0]>>     \* also on an iterator that has panicked
             \o Rep([op |-> "next", it |-> 1], n)
             \o <<[op |-> "module_tags", it |-> 2], [op |-> "size_hint", it |-> 2], [op |-> "for_each", it |-> 2]>> \o Rep([op |-> "next", it |-> 2], n)
             \o <<[op |-> "size_hint", it |-> 2]>>
             \* a second load must change nothing: iterators made before stay valid, new ones start afresh; clone of a clone
             \o <<[op |-> "tags", it |-> 5], [op |-> "next", it |-> 5], [op |-> "load"], [op |-> "next", it |-> 5],
                  [op |-> "clone", it |-> 5, to |-> 6], [op |-> "clone", it |-> 6, to |-> 7], [op |-> "next", it |-> 7],
                  [op |-> "next", it |-> 5], [op |-> "tags", it |-> 8], [op |-> "next", it |-> 8]>>,
   desc |-> [area |-> "walk", T |-> p.T, hs |-> p.hs, look |-> p.look]]
=============================================================================
