SPECIFICATION MCSpec
CONSTANT Params <- AdvParams
CONSTANT MkCase <- AdvCase
INVARIANT DesignAccepted
INVARIANT DesignControlled
INVARIANT Export
PROPERTY Terminates
CHECK_DEADLOCK FALSE
