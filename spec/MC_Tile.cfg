SPECIFICATION MCSpec
CONSTANT Params <- TileParams
CONSTANT MkCase <- TileCase
CONSTANT TileNs = {4096}
CONSTANT TileStack = 262144
INVARIANT DesignAccepted
INVARIANT DesignControlled
INVARIANT Export
PROPERTY Terminates
CHECK_DEADLOCK FALSE
