------------------------------ MODULE MC_Str ------------------------------
EXTENDS MCInfoLib
CONSTANTS MaxStr, StrKinds

\* ---- Str corpus (C17): all strings over a small alphabet, every cut of the declared size -----------------------
StrAlphabet == {0, 97, 195, 169, 226, 130, 172, 240, 128, 255}     \* NUL, 'a', pieces of 2/3/4-byte sequences, invalid
RECURSIVE StrsUpTo(_)
StrsUpTo(n) == IF n = 0 THEN {<<>>} ELSE {<<>>} \cup { <<x>> \o r : x \in StrAlphabet, r \in StrsUpTo(n - 1) }
StrParams == UNION { { [kind |-> k, s |-> s, m |-> m] : m \in 0..Len(s) } : k \in StrKinds, s \in StrsUpTo(MaxStr) }
\* the tag declares base + m bytes; the rest of s lies in the padding / runs into the following bytes
StrTag(p) ==
  LET K == InfoKind(p.kind)
      fixed == IF p.kind = "module" THEN <<1, 0, 0, 0, 2, 0, 0, 0>> ELSE <<>> IN
  Pad8(U32Bytes(K.id) \o U32Bytes(K.base + p.m) \o fixed \o p.s)
StrCase(p) ==
  LET body == StrTag(p) \o Pad8(Neighbour)  T == 8 + Len(body) + 8 IN
  [mem |-> U32Bytes(T) \o <<0, 0, 0, 0>> \o body \o EndTagBytes, al |-> 0,
   calls |-> <<[op |-> "load"], [op |-> "str", kind |-> p.kind], [op |-> "get", kind |-> p.kind]>>,
   desc |-> [area |-> "str"] @@ p]
=============================================================================
