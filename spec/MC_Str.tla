------------------------------ MODULE MC_Str ------------------------------
EXTENDS MCInfoLib
CONSTANTS MaxStr, StrKinds

\* ---- Str corpus (C17): all strings over a small alphabet, every cut of the declared size -----------------------
StrAlphabet == {0, 97, 195, 169, 226, 130, 172, 240, 128, 255}     \* NUL, 'a', pieces of 2/3/4-byte sequences, invalid
\* strings are enumerated by (length, code): digit i of the code (base 10) selects the i-th byte
AlphaSeq == <<0, 97, 195, 169, 226, 130, 172, 240, 128, 255>>
Pow10(n) == LET RECURSIVE P(_) P(i) == IF i = 0 THEN 1 ELSE 10 * P(i - 1) IN P(n)
StrOf(len, code) == [i \in 1..len |-> AlphaSeq[((code \div Pow10(i - 1)) % 10) + 1]]
\* longer texts: k letters, one byte x of interest (control characters, white space, DEL, a lone continuation byte), the NUL -
\* every position of the NUL relative to an 8-byte group, with bytes before it that word-at-a-time tricks confuse with it
LongStr(k, x) == [i \in 1..k |-> 97 + (i % 26)] \o <<x, 0>>
StrParamsLong == { [kind |-> kd, len |-> k + 2, code |-> 0, m |-> k + 2, s |-> LongStr(k, x)]
                   : kd \in StrKinds, k \in 0..17, x \in {1, 2, 9, 10, 32, 127, 128, 255} }
StrBytes(p) == IF "s" \in DOMAIN p THEN p.s ELSE StrOf(p.len, p.code)
StrParams == UNION { { [kind |-> k, len |-> n, code |-> cd, m |-> m] : k \in StrKinds, cd \in 0..(Pow10(n) - 1), m \in 0..n } : n \in 0..MaxStr }
StrParamsAll == StrParams \cup StrParamsLong
\* the tag declares base + m bytes; the rest of s lies in the padding / runs into the following bytes
StrTag(p) ==
  LET K == InfoKind(p.kind)
      fixed == IF p.kind = "module" THEN <<1, 0, 0, 0, 2, 0, 0, 0>> ELSE <<>> IN
  Pad8(U32Bytes(K.id) \o U32Bytes(K.base + p.m) \o fixed \o StrBytes(p))
StrCase(p) ==
  LET body == StrTag(p) \o Pad8(Neighbour)  T == 8 + Len(body) + 8 IN
  [mem |-> U32Bytes(T) \o <<0, 0, 0, 0>> \o body \o EndTagBytes, al |-> 0,
   calls |-> <<[op |-> "load"], [op |-> "str", kind |-> p.kind], [op |-> "get", kind |-> p.kind]>>
             \o (IF p.kind \in {"cmdline", "bootloader"} THEN <<[op |-> "dbg", what |-> p.kind]>> ELSE <<>>),
   desc |-> [area |-> "str", s |-> StrBytes(p)] @@ p]
=============================================================================
