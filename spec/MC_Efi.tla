------------------------------ MODULE MC_Efi ------------------------------
EXTENDS MCInfoLib
CONSTANTS MaxD, LCap, EfiSizeSet

\* ---- Efi corpus (C18): descriptor size x version x map length, all prefixes of the iteration ------------
\* environment plan: create, then (len, next) past the naive count, size_hint, a clone, Debug
EfiSizes == IF EfiSizeSet = {} THEN 0..MaxD ELSE EfiSizeSet     \* a chosen set of descriptor sizes, or all up to MaxD
\* atEnd: the map tag is the last one before the end tag, so that reading a descriptor that overlaps the end of the
\* tag by more than 8 bytes leaves the region (and faults on the guard page)
EfiParamsSet == UNION { { [d |-> d, v |-> v, L |-> L, atEnd |-> e] : L \in 0..Min(3 * d + 9, LCap), e \in BOOLEAN } : d \in EfiSizes, v \in {0, 1, 2} }
EfiTag(p) == Override(Override(RawTag(17, 16 + p.L, IF "z" \in DOMAIN p THEN p.z ELSE 0), 8, IF "dB" \in DOMAIN p THEN p.dB ELSE U32Bytes(p.d)), 12, U32Bytes(p.v))
\* z: maps whose descriptors are all zeros / all ones (a page count of 0 is a descriptor like any other)
EfiParamsZ == { [d |-> d, v |-> 1, L |-> d * k, atEnd |-> FALSE, z |-> z] : d \in {40, 48} \cap EfiSizes, k \in 0..3, z \in {2, 3} }
\* descriptor sizes near the top of 32 bits (as bytes; d is their saturated value): valid with an empty map
EfiParamsBig == { [d |-> Far, dB |-> b, v |-> 1, L |-> 0, atEnd |-> FALSE]
                  : b \in {<<40, 0, 0, 128>>, <<248, 255, 255, 255>>, <<0, 0, 0, 64>>, <<40, 0, 0, 64>>} }
                \cup { [d |-> Far, dB |-> <<44, 0, 0, 128>>, v |-> 1, L |-> 0, atEnd |-> FALSE] }       \* ... and an invalid one (not a multiple of 8)
EfiParamsAll == EfiParamsSet \cup EfiParamsZ \cup EfiParamsBig
EfiNaive(p) == Min(IF p.d = 0 THEN 4 ELSE p.L \div p.d, 4)
EfiCase(p) ==
  [mem |-> InfoImage(IF p.atEnd THEN <<Neighbour, EfiTag(p)>> ELSE <<EfiTag(p), Neighbour>>), al |-> 0,
   calls |-> <<[op |-> "load"], [op |-> "efi_areas", it |-> 0], [op |-> "len", it |-> 0],
               [op |-> "size_hint", it |-> 0], [op |-> "next", it |-> 0], [op |-> "clone", it |-> 0, to |-> 1]>>
             \o Concat([i \in 1..(EfiNaive(p) + 1) |-> <<[op |-> "len", it |-> 0], [op |-> "next", it |-> 0]>>])
             \o <<[op |-> "len", it |-> 0], [op |-> "size_hint", it |-> 0], [op |-> "next", it |-> 0], [op |-> "len", it |-> 0],    \* after exhaustion
                  [op |-> "efi_areas", it |-> 4], [op |-> "nth", it |-> 4, n |-> 9], [op |-> "next", it |-> 4], [op |-> "len", it |-> 4],
                  [op |-> "last", it |-> 0], [op |-> "last", it |-> 1], [op |-> "count", it |-> 1], [op |-> "nth", it |-> 1, n |-> 1], [op |-> "len", it |-> 1],
                  [op |-> "len", it |-> 1], [op |-> "next", it |-> 1], [op |-> "size_hint", it |-> 1],
                  [op |-> "dbg", what |-> "efi_mmap"],
                  \* the other public route to the tag (walk, cast) - the same checks guard the same iteration
                  [op |-> "efi_areas", it |-> 7, via |-> "cast"], [op |-> "len", it |-> 7], [op |-> "next", it |-> 7],
                  [op |-> "next", it |-> 7], [op |-> "last", it |-> 7]>>,
   desc |-> [area |-> "efi"] @@ p]
=============================================================================
