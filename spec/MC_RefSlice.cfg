SPECIFICATION MCSpec
CONSTANT Params <- RSParams
CONSTANT MkCase <- RSCase
CONSTANT MaxLen = 40
CONSTANT MaxDecl = 56
CONSTANT HeaderNames = {"bi", "tag", "mb", "htag", "dummy"}
INVARIANT DesignAccepted
INVARIANT DesignControlled
INVARIANT Export
PROPERTY Terminates
CHECK_DEADLOCK FALSE
