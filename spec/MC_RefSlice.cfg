SPECIFICATION MCSpec
CONSTANT Params <- RSParams
CONSTANT MkCase <- RSCase
CONSTANT MaxLen = 40
CONSTANT MaxDecl = 56
CONSTANT HeaderNames = {"bi", "tag", "mb", "htag", "dummy", "h12", "h4"}
INVARIANT DesignAccepted
INVARIANT DesignControlled
INVARIANT Export
PROPERTY Terminates
CHECK_DEADLOCK FALSE
