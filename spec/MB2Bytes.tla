------------------------------ MODULE MB2Bytes ------------------------------
(***************************************************************************)
(* Bytes, little-endian words, rounding, 32-bit arithmetic on 16-bit limbs *)
(* and byte lists, UTF-8 well-formedness.  TLC integers are 32-bit, so     *)
(*  - decoded field VALUES are always compared as little-endian byte      *)
(*    lists (which is literally what "the value stored at offset/width"    *)
(*    means),                                                              *)
(*  - quantities used as SIZES are converted with a saturating LE: every   *)
(*    value >= 2^30 is Far (the harness clamps what it logs the same way), *)
(*  - genuine 32-bit arithmetic uses 16-bit limbs / byte lists with carry. *)
(***************************************************************************)
EXTENDS Naturals, Integers, Sequences, FiniteSets

Far == 1073741824            \* 2^30; any size/offset >= Far is "out of this world"

Min(a, b) == IF a <= b THEN a ELSE b
Max(a, b) == IF a >= b THEN a ELSE b

RoundUp(n, a) == ((n + a - 1) \div a) * a
RoundUp8(n)   == RoundUp(n, 8)

Byte == 0..255
IsByteSeq(b) == \A i \in 1..Len(b) : b[i] \in Byte

\* ---- slicing (0-based offsets, like the code) -----------------------------
InRange(mem, off, n) == off >= 0 /\ n >= 0 /\ off + n <= Len(mem)
\* total: positions outside the image read as -1, which no recorded byte can equal - a specification
\* operator applied to an arbitrary (mutated) image then yields a mismatch at worst, never an evaluation error
Bytes(mem, off, n) ==
  IF InRange(mem, off, n) THEN SubSeq(mem, off + 1, off + n)
  ELSE [i \in 1..(IF n > 0 THEN n ELSE 0) |-> IF off + i >= 1 /\ off + i <= Len(mem) THEN mem[off + i] ELSE -1]

\* ---- little endian -----------------------------------------------------------
LE2(b) == b[1] + 256 * b[2]
LE4(b) == IF b[4] >= 64 THEN Far                    \* saturating: >= 2^30 is Far
          ELSE b[1] + 256 * b[2] + 65536 * b[3] + 16777216 * b[4]
U16At(mem, off) == LE2(Bytes(mem, off, 2))
U32At(mem, off) == LE4(Bytes(mem, off, 4))
U32Bytes(n) == <<n % 256, (n \div 256) % 256, (n \div 65536) % 256, (n \div 16777216) % 256>>
U16Bytes(n) == <<n % 256, (n \div 256) % 256>>
Zeros(n) == [i \in 1..n |-> 0]
\* zero extension of a little-endian byte list to w bytes
ZExt(b, w) == b \o Zeros(w - Len(b))

\* ---- byte-list arithmetic with carry (for u64 sums / differences) ------------
RECURSIVE AddLE(_, _, _)
\* a, b little-endian byte lists of equal length; result has the same length (wrapping)
AddLE(a, b, carry) ==
  IF a = <<>> THEN <<>>
  ELSE LET s == a[1] + b[1] + carry IN <<s % 256>> \o AddLE(Tail(a), Tail(b), s \div 256)
RECURSIVE CarryOut(_, _, _)
CarryOut(a, b, carry) ==
  IF a = <<>> THEN carry
  ELSE CarryOut(Tail(a), Tail(b), (a[1] + b[1] + carry) \div 256)
RECURSIVE SubLE(_, _, _)
\* a - b (wrapping), borrow in {0,1}
SubLE(a, b, borrow) ==
  IF a = <<>> THEN <<>>
  ELSE LET d == a[1] - b[1] - borrow IN
       <<(d + 256) % 256>> \o SubLE(Tail(a), Tail(b), IF d < 0 THEN 1 ELSE 0)
RECURSIVE BorrowOut(_, _, _)
BorrowOut(a, b, borrow) ==
  IF a = <<>> THEN borrow
  ELSE BorrowOut(Tail(a), Tail(b), IF a[1] - b[1] - borrow < 0 THEN 1 ELSE 0)
\* unsigned comparison of equal-length little-endian byte lists
LtLE(a, b) == BorrowOut(a, b, 0) = 1
SumBytesMod256(b) == LET RECURSIVE S(_) S(x) == IF x = <<>> THEN 0 ELSE (x[1] + S(Tail(x))) % 256 IN S(b)

\* ---- 32-bit values as 16-bit limbs ---------------------------------------------
\* [hi, lo] with hi, lo in 0..65535
Limb(b4) == [lo |-> b4[1] + 256 * b4[2], hi |-> b4[3] + 256 * b4[4]]
LimbBytes(x) == <<x.lo % 256, x.lo \div 256, x.hi % 256, x.hi \div 256>>
LimbAdd(x, y) == LET l == x.lo + y.lo  h == x.hi + y.hi + (l \div 65536) IN
                 [lo |-> l % 65536, hi |-> h % 65536]
LimbNeg(x) == LET l == (65536 - x.lo) % 65536
                  h == (65536 - x.hi - (IF x.lo = 0 THEN 0 ELSE 1)) IN
              [lo |-> l, hi |-> (h + 65536) % 65536]
LimbLe(x, y) == x.hi < y.hi \/ (x.hi = y.hi /\ x.lo <= y.lo)
LimbZero == [lo |-> 0, hi |-> 0]

\* ---- strings ---------------------------------------------------------------------
FirstNul(b) == LET S == {i \in 1..Len(b) : b[i] = 0} IN
               IF S = {} THEN 0 ELSE CHOOSE i \in S : \A j \in S : i <= j

Cont(x) == x >= 128 /\ x <= 191
RECURSIVE Utf8Valid(_)
\* Unicode 15, Table 3-7 "Well-Formed UTF-8 Byte Sequences"
Utf8Valid(b) ==
  IF b = <<>> THEN TRUE
  ELSE LET x == b[1] n == Len(b) IN
    IF x <= 127 THEN Utf8Valid(Tail(b))
    ELSE IF x >= 194 /\ x <= 223 THEN n >= 2 /\ Cont(b[2]) /\ Utf8Valid(SubSeq(b, 3, n))
    ELSE IF x = 224 THEN n >= 3 /\ b[2] >= 160 /\ b[2] <= 191 /\ Cont(b[3]) /\ Utf8Valid(SubSeq(b, 4, n))
    ELSE IF (x >= 225 /\ x <= 236) \/ x = 238 \/ x = 239
         THEN n >= 3 /\ Cont(b[2]) /\ Cont(b[3]) /\ Utf8Valid(SubSeq(b, 4, n))
    ELSE IF x = 237 THEN n >= 3 /\ b[2] >= 128 /\ b[2] <= 159 /\ Cont(b[3]) /\ Utf8Valid(SubSeq(b, 4, n))
    ELSE IF x = 240 THEN n >= 4 /\ b[2] >= 144 /\ b[2] <= 191 /\ Cont(b[3]) /\ Cont(b[4]) /\ Utf8Valid(SubSeq(b, 5, n))
    ELSE IF x >= 241 /\ x <= 243 THEN n >= 4 /\ Cont(b[2]) /\ Cont(b[3]) /\ Cont(b[4]) /\ Utf8Valid(SubSeq(b, 5, n))
    ELSE IF x = 244 THEN n >= 4 /\ b[2] >= 128 /\ b[2] <= 143 /\ Cont(b[3]) /\ Cont(b[4]) /\ Utf8Valid(SubSeq(b, 5, n))
    ELSE FALSE

\* ---- outcomes (the abstract result of one API call) ---------------------------------
Panic   == [k |-> "panic"]
None    == [k |-> "none"]
Unit    == [k |-> "unit"]
Skipped == [k |-> "skipped"]
Err(e)  == [k |-> "err", e |-> e]
Ok(v)   == [k |-> "ok", v |-> v]
Some(v) == [k |-> "some", v |-> v]
Val(b)  == [k |-> "val", v |-> b]

Has(r, f) == f \in DOMAIN r
\* outcome classes a call of the library may legitimately end in
Controlled(o) == o.k \notin {"crash", "hang"}
IsVal(o, b) == o.k = "val" /\ Has(o, "v") /\ o.v = b
=============================================================================
