-------------------------------- MODULE MB2Api --------------------------------
(***************************************************************************)
(* The API session machine: the abstract state an API user can hold        *)
(* (loaded object, iterator cursors, builder slots, heap objects), one     *)
(* action per public call at its return, and per property C01..C20 the     *)
(* declarative acceptance predicate for a (case, tracked state, call,      *)
(* outcome) quadruple.                                                     *)
(*                                                                         *)
(*   c    : the case  [mem, al, calls, desc, ...]                          *)
(*   trk  : tracked session state (advanced from OBSERVED outcomes)        *)
(*   call : [op |-> ..., args]                                             *)
(*   o    : outcome                                                        *)
(***************************************************************************)
EXTENDS MB2TypeIds, TLC

Props == {"C01", "C02", "C03", "C04", "C05", "C06", "C07", "C08", "C09", "C10",
          "C11", "C12", "C13", "C14", "C15", "C16", "C17", "C18", "C19", "C20"}

Al(c) == IF Has(c, "al") THEN c.al ELSE 0

\* extents (at, length) carried by an outcome
ExtOfRec(r) == IF Has(r, "at") THEN {<<r.at, IF Has(r, "sv") THEN r.sv ELSE IF Has(r, "len") THEN r.len ELSE 0>>} ELSE {}
Exts(o) ==
  CASE o.k = "ref" -> {<<o.at, o.len>>}
    [] o.k \in {"some", "ok"} ->
         IF Has(o.v, "k") THEN (IF o.v.k = "ok" THEN ExtOfRec(o.v.v) ELSE {}) ELSE ExtOfRec(o.v)
    [] OTHER -> {}
Inside(e, lo, hi) == e[1] >= lo /\ e[2] >= 0 /\ e[1] + e[2] <= hi

\* ---- tracked state -------------------------------------------------------------
\* loaded : "none" | "bi" | "hdr"
\* its    : iterator id |-> [kind, k (items yielded so far), dead]
TrkInit == [loaded |-> "none", its |-> <<>>,
            hasb |-> FALSE, bld |-> <<>>, built |-> <<>>,            \* boot-information builder: supplied tags, built bytes
            hashb |-> FALSE, hbld |-> <<>>, harch |-> 0, hbuilt |-> <<>>,
            img |-> "case"]                                          \* which bytes are under test: the case image or a built structure
HasIt(trk, id) == id \in DOMAIN trk.its
ItOf(trk, id) == trk.its[id]
SetIt(trk, id, v) == [trk EXCEPT !.its = (id :> v) @@ trk.its]

\* the supplied tag as the builder received it: its bytes up to its own size field
SuppliedImg(bytes, isHdr) ==
  LET sz == IF Len(bytes) >= 8 THEN U32At(bytes, 4) ELSE 0 IN
  IF sz >= 8 /\ sz <= Len(bytes) THEN SubSeq(bytes, 1, sz) ELSE bytes
Advance(c0, trk, call, o) ==
  LET c == IF trk.img = "info" THEN [c0 EXCEPT !.mem = trk.built]
           ELSE IF trk.img = "header" THEN [c0 EXCEPT !.mem = trk.hbuilt] ELSE c0 IN
  CASE call.op = "load" -> [trk EXCEPT !.loaded = IF o.k = "ok" THEN "bi" ELSE "none"]
    [] call.op = "b_new" -> [trk EXCEPT !.hasb = TRUE, !.bld = <<>>, !.built = <<>>]
    [] call.op = "hb_new" -> [trk EXCEPT !.hashb = TRUE, !.hbld = <<>>, !.hbuilt = <<>>, !.harch = call.arch]
    [] call.op = "b_set" ->
         IF o.k = "ok" /\ trk.hasb THEN [trk EXCEPT !.bld = Append(trk.bld, [slot |-> call.slot, img |-> SuppliedImg(o.v.bytes, FALSE)])]
         ELSE IF o.k \in {"panic", "crash", "hang"} THEN [trk EXCEPT !.hasb = FALSE] ELSE trk
    [] call.op = "hb_set" ->
         IF o.k = "ok" /\ trk.hashb THEN [trk EXCEPT !.hbld = Append(trk.hbld, [slot |-> call.slot, img |-> SuppliedImg(o.v.bytes, TRUE)])]
         ELSE IF o.k \in {"panic", "crash", "hang"} THEN [trk EXCEPT !.hashb = FALSE] ELSE trk
    [] call.op = "use_built" ->
         IF o.k = "unit" THEN [trk EXCEPT !.img = call.which, !.loaded = "none", !.its = <<>>] ELSE trk
    [] call.op = "b_build" -> [trk EXCEPT !.hasb = FALSE, !.built = IF o.k = "ok" THEN o.v.bytes ELSE <<>>]
    [] call.op = "hb_build" -> [trk EXCEPT !.hashb = FALSE, !.hbuilt = IF o.k = "ok" THEN o.v.bytes ELSE <<>>]
    [] call.op = "hload" -> [trk EXCEPT !.loaded = IF o.k = "ok" THEN "hdr" ELSE "none"]
    [] call.op = "htags" ->
         IF o.k = "unit" THEN SetIt(trk, call.it, [kind |-> "htags", k |-> 0, cp |-> FALSE, dead |-> FALSE]) ELSE trk
    [] call.op \in {"tags", "module_tags"} ->
         IF o.k = "unit" THEN SetIt(trk, call.it, [kind |-> call.op, k |-> 0, cp |-> FALSE, dead |-> FALSE]) ELSE trk
    [] call.op \in {"efi_areas", "elf_sections", "elf_sections_deprecated"} ->
         IF o.k = "unit" THEN SetIt(trk, call.it, [kind |-> IF call.op = "efi_areas" THEN "efi" ELSE "elf",
                                                  k |-> 0, cp |-> FALSE, dead |-> FALSE]) ELSE trk
    [] call.op = "clone" ->
         IF o.k = "unit" /\ HasIt(trk, call.it) THEN SetIt(trk, call.to, ItOf(trk, call.it)) ELSE trk
    [] call.op = "cast_item" ->  \* next() then cast: the item is consumed even when the cast panics
         IF ~HasIt(trk, call.it) THEN trk
         ELSE LET s == ItOf(trk, call.it)  w == InfoWalk(c.mem) IN
              SetIt(trk, call.it, [s EXCEPT !.k = IF o.k = "some" \/ (o.k = "panic" /\ s.k < Len(w.items)) THEN s.k + 1 ELSE s.k,
                                            !.dead = s.dead \/ o.k \in {"crash", "hang"} \/ (o.k = "panic" /\ s.k >= Len(w.items))])
    [] call.op = "nth" ->        \* nth(n) consumes n + 1 items (or exhausts / kills the iterator)
         IF ~HasIt(trk, call.it) THEN trk
         ELSE LET s == ItOf(trk, call.it) IN
              SetIt(trk, call.it, [s EXCEPT !.k = IF o.k \in {"some", "none"} THEN s.k + call.n + 1 ELSE s.k,
                                            !.dead = s.dead \/ o.k \in {"panic", "crash", "hang"}])
    [] call.op = "next" ->
         IF ~HasIt(trk, call.it) THEN trk
         ELSE LET s == ItOf(trk, call.it)
                  \* a module iterator's panic on an undersized module tag consumes that tag
                  castPanic == /\ s.kind = "module_tags" /\ o.k = "panic" /\ ~s.dead
                               /\ LET ms == ModItems(InfoWalk(c.mem)) IN
                                  s.k < Len(ms) /\ ms[s.k + 1].size < ModuleBase IN
              SetIt(trk, call.it, [s EXCEPT !.k = IF o.k = "some" \/ castPanic THEN s.k + 1 ELSE s.k,
                                            !.cp = s.cp \/ castPanic,
                                            !.dead = s.dead \/ (o.k \in {"panic", "crash", "hang"} /\ ~castPanic)])
    [] OTHER -> trk

\* ---- C14 ---------------------------------------------------------------------------
Declared(c, H) == IF Len(c.mem) >= H.sizeOff + 4 THEN U32At(c.mem, H.sizeOff) ELSE 0
Distinct(ss) == \A i, j \in 1..Len(ss) : i # j => ss[i] # ss[j] /\ ss[i] # ""
C14_Accept(c, trk, call, o) ==
  CASE call.op \in {"ref_from_slice", "ref_from_bytes"} ->      \* the latter: BytesRef::try_from, then ref_from_bytes on its result
         LET H == HeaderByName(call.h) IN AcceptRefFromSlice(H, Len(c.mem), Al(c), Declared(c, H), o)
    [] call.op = "bytes_ref" ->
         AcceptBytesRef(HeaderByName(call.h), Len(c.mem), Al(c), o)
    [] call.op = "round8" -> IsVal(o, U32Bytes(RoundUp8(LE4(call.n))) \o <<0, 0, 0, 0>>)
    \* "rejected with the respective error": the errors stay distinguishable when rendered for a user (Display) - the
    \* five memory errors among themselves, and as the two crates' load errors forward them next to their own
    [] call.op = "err_texts" -> o.k = "texts" /\ Distinct(o.mem) /\ Len(o.mem) = 5 /\ Distinct(o.info) /\ Len(o.info) = 6
                                /\ Distinct(o.hdr) /\ Len(o.hdr) = 7
    [] OTHER -> TRUE

\* ---- C02 ---------------------------------------------------------------------------
IsNull(call) == Has(call, "null") /\ call.null
AcceptLoadX(mx, o) ==
  LET s == LoadSpecX(mx) IN
  IF s.k = "err" THEN o.k = "err" /\ o.e = s.e
  ELSE o.k = "ok" /\ o.v.start = 0 /\ o.v.end = s.v.end /\ o.v.ptr = 0 /\ o.v.total = s.v.total
C02_Accept(c, trk, call, o) ==
  CASE call.op = "load" -> IF Has(c, "memx") THEN AcceptLoadX(c.memx, o) ELSE AcceptLoad(IsNull(call), c.mem, o)
    [] OTHER -> TRUE

\* ---- C03 ---------------------------------------------------------------------------
\* Iterator methods other than next() must agree with repeated next()
AcceptWalkNth(w, k, dead, n, o) ==
  IF dead THEN o.k \in {"panic", "none"}
  ELSE IF k + n < Len(w.items) THEN o.k = "some" /\ o.v.at = w.items[k + n + 1].at /\ o.v.sv = RoundUp8(w.items[k + n + 1].size)
  ELSE IF w.fin = "none" THEN o.k = "none" ELSE o.k = "panic"
AcceptWalkCount(w, k, dead, o) ==
  IF dead THEN TRUE
  ELSE IF w.fin = "none" THEN IsVal(o, U64Bytes(IF k <= Len(w.items) THEN Len(w.items) - k ELSE 0)) ELSE o.k = "panic"
AcceptWalkLast(w, k, dead, o) ==
  IF dead THEN TRUE
  ELSE IF w.fin = "panic" THEN o.k = "panic"
  ELSE IF k < Len(w.items) THEN o.k = "some" /\ o.v.at = w.items[Len(w.items)].at /\ o.v.sv = RoundUp8(w.items[Len(w.items)].size)
  ELSE o.k = "none"
\* for_each on a copy of the iterator visits exactly what repeated next() would: the rest of the walk, in order
AcceptWalkRest(w, k, dead, o) ==
  IF dead THEN Controlled(o)
  ELSE IF w.fin = "panic" THEN o.k = "panic"
  ELSE o.k = "list" /\ o.v = [i \in 1..(IF k <= Len(w.items) THEN Len(w.items) - k ELSE 0) |-> w.items[k + i].at]
\* size_hint of a tag iterator is a bound on what the walk still yields: never a panic on a live iterator (it reads
\* nothing), lo <= remaining <= hi.  A dead iterator (one that has panicked) yields nothing more: lo must be 0.
AcceptWalkHint(rem, dead, o) ==
  IF dead THEN o.k = "panic" \/ (o.k = "hint" /\ LE8Small(o.lo) = 0)
  ELSE o.k = "hint" /\ LE8Small(o.lo) <= rem /\ (o.hi.k = "none" \/ LE8Small(o.hi.v) >= rem)
WalkRem(w, k) == IF k <= Len(w.items) THEN Len(w.items) - k ELSE 0
C03_Accept(c, trk, call, o) ==
  CASE call.op = "tags" -> IF trk.loaded = "bi" THEN o.k = "unit" ELSE o.k = "skipped"
    [] call.op = "module_tags" -> IF trk.loaded = "bi" THEN o.k = "unit" ELSE o.k = "skipped"
    [] call.op = "clone" -> IF HasIt(trk, call.it) THEN o.k = "unit" ELSE o.k = "skipped"
    [] call.op \in {"nth", "count", "last"} /\ HasIt(trk, call.it) /\ ItOf(trk, call.it).kind = "tags" ->
         LET s == ItOf(trk, call.it)  w == InfoWalk(c.mem) IN
         IF call.op = "nth" THEN AcceptWalkNth(w, s.k, s.dead, call.n, o)
         ELSE IF call.op = "last" THEN AcceptWalkLast(w, s.k, s.dead, o) ELSE AcceptWalkCount(w, s.k, s.dead, o)
    [] call.op = "count" /\ HasIt(trk, call.it) /\ ItOf(trk, call.it).kind = "module_tags" ->
         LET s == ItOf(trk, call.it)  w == InfoWalk(c.mem)  ms == ModItems(w)
             rest == SubSeq(ms, s.k + 1, Len(ms)) IN
         IF s.dead \/ s.cp THEN TRUE
         ELSE IF w.fin = "panic" \/ \E i \in 1..Len(rest) : rest[i].size < ModuleBase THEN o.k = "panic"
         ELSE IsVal(o, U64Bytes(Len(rest)))
    [] call.op = "for_each" /\ HasIt(trk, call.it) /\ ItOf(trk, call.it).kind = "tags" ->
         LET s == ItOf(trk, call.it) IN AcceptWalkRest(InfoWalk(c.mem), s.k, s.dead, o)
    [] call.op = "for_each" /\ HasIt(trk, call.it) /\ ItOf(trk, call.it).kind = "module_tags" ->
         LET s == ItOf(trk, call.it)  w == InfoWalk(c.mem)  ms == ModItems(w) IN
         IF s.dead \/ s.cp \/ w.fin = "panic" \/ (\E i \in 1..Len(ms) : ms[i].size < ModuleBase) THEN Controlled(o)
         ELSE o.k = "list" /\ o.v = [i \in 1..(IF s.k <= Len(ms) THEN Len(ms) - s.k ELSE 0) |-> ms[s.k + i].at]
    [] call.op = "size_hint" /\ HasIt(trk, call.it) /\ ItOf(trk, call.it).kind \in {"tags", "module_tags"} ->
         LET s == ItOf(trk, call.it)  w == InfoWalk(c.mem) IN
         IF s.kind = "tags" THEN AcceptWalkHint(WalkRem(w, s.k), s.dead, o)
         ELSE IF s.cp THEN Controlled(o)
         ELSE AcceptWalkHint(Len(SubSeq(ModItems(w), s.k + 1, Len(ModItems(w)))), s.dead, o)
    [] call.op = "next" ->
         IF ~HasIt(trk, call.it) THEN o.k = "skipped"
         ELSE LET s == ItOf(trk, call.it)  w == InfoWalk(c.mem) IN
              CASE s.kind = "tags" -> AcceptTagNext(w, s.k, s.dead, o)
                [] s.kind = "module_tags" -> AcceptTagNextMod(w, s.k, s.cp, s.dead, o)
                [] OTHER -> TRUE
    [] OTHER -> TRUE

\* ---- typed getters, fields, strings (C04 / C05 / C15 / C17) ------------------------------------
\* getter result including the two special getters
\*   efi_mmap: withheld while a boot-services-not-exited tag is present
EffGet(mem, name) ==
  IF name = "efi_mmap" THEN
     LET bs == GetSpec(mem, "efi_bs") IN
     CASE bs.k = "absent" -> GetSpec(mem, "efi_mmap")
       [] bs.k = "panic" -> [k |-> "panic"]
       [] bs.k = "must" -> [k |-> "absent"]
       [] OTHER -> [k |-> "freeabsent"]          \* odd-sized efi_bs tag: panic or withheld
  ELSE GetSpec(mem, name)

AcceptGet(mem, name, o) ==
  LET g == EffGet(mem, name) IN
  CASE g.k = "absent" -> o.k = "none"
    [] g.k = "panic" -> o.k = "panic"
    [] g.k = "freeabsent" -> o.k \in {"panic", "none"}
    [] OTHER ->
         IF name = "framebuffer" THEN
            LET ft == FbTypeSpec(mem, g.it) IN
            CASE ft.k = "panic" -> o.k = "panic"
              [] ft.k = "err" -> o.k = "some" /\ o.v.k = "err" /\ (o.v.v = ft.v \/ o.v.v = <<>>)
              [] OTHER -> o.k = "some" /\ o.v.k = "ok" /\ o.v.v.at = g.it.at /\ o.v.v.sv = RoundUp8(g.it.size)
         ELSE (g.k = "free" /\ o.k = "panic") \/ IsView(o, g.it)

\* ---- specified result of reading field f of kind `name` on walk item it -----------------------
\* a "result spec" is one of
\*   [k "exact", o]   the outcome is fully determined
\*   [k "ref", at, n, len]  a slice with that extent
\*   [k "fb", s]      a framebuffer type result (AcceptFbType)
\*   [k "free"]       unspecified but controlled: panic or some value
\*   [k "any"]        not covered by a table entry
Exact(o) == [k |-> "exact", o |-> o]
RefSpec(at, n, len) == [k |-> "ref", at |-> at, n |-> n, len |-> len]
Utf8Res(mem, at, len) == IF Utf8Valid(Bytes(mem, at, len)) THEN Exact(Ok([at |-> at, len |-> len])) ELSE Exact(Err("Utf8"))
FieldSpec(mem, name, f, it) ==
  LET K == InfoKind(name)  R == RoundUp8(it.size) IN
  \* the generic byte views of MaybeDynSized: the whole (padded) tag, its bytes after the header, its address
  CASE f = "as_bytes" -> RefSpec(it.at, R, R)
    [] f = "trait_payload" -> RefSpec(it.at + 8, R - 8, R - 8)
    [] f = "as_ptr" -> RefSpec(it.at, 0, 0)
    [] name = "module" /\ f = "module_size" ->
         LET st == Bytes(mem, it.at + 8, 4)  en == Bytes(mem, it.at + 12, 4) IN
         IF LtLE(en, st) THEN [k |-> "free"]                 \* end < start: unspecified, but controlled
         ELSE Exact(Val(SubLE(en, st, 0)))
    [] name = "mmap" /\ f = "memory_areas" ->
         LET a == MmapAreasSpec(mem, it) IN IF a.k = "panic" THEN Exact(Panic) ELSE a
    [] name = "smbios" /\ f = "tables" -> RefSpec(it.at + 16, it.size - 16, it.size - 16)
    [] name = "network" /\ f = "payload" ->      \* the generic trait view: padded bytes after the header
         RefSpec(it.at + 8, RoundUp8(it.size) - 8, RoundUp8(it.size) - 8)
    [] name = "framebuffer" /\ f = "buffer_type" -> [k |-> "fb", s |-> FbTypeSpec(mem, it)]
    [] name \in {"rsdpv1", "rsdpv2"} /\ f = "signature" -> Utf8Res(mem, it.at + 8, 8)
    [] name \in {"rsdpv1", "rsdpv2"} /\ f = "oem_id" -> Utf8Res(mem, it.at + 17, 6)
    [] name = "rsdpv1" /\ f = "checksum_is_valid" ->
         Exact(BoolVal(SumBytesMod256(Bytes(mem, it.at + 8, RsdpV1Len)) = 0))
    [] name = "rsdpv2" /\ f = "checksum_is_valid" ->
         LET L == U32At(mem, it.at + 28) IN
         IF L > RsdpV2Max THEN [k |-> "free"]                 \* length beyond the tag: no specified value (C01 bounds it)
         ELSE Exact(BoolVal(SumBytesMod256(Bytes(mem, it.at + 8, L)) = 0))
    [] OTHER ->
         LET fld == FieldNamed(K, f) IN
         IF fld.n = "?" THEN [k |-> "any"]
         ELSE Exact(Val(ZExt(Bytes(mem, it.at + fld.off, fld.w), fld.rw)))

AcceptBySpec(s, o) ==
  CASE s.k = "exact" -> IF s.o.k = "ok" THEN o.k = "ok" /\ o.v.at = s.o.v.at /\ o.v.len = s.o.v.len
                        ELSE IF s.o.k = "err" THEN o.k = "err" /\ o.e = s.o.e
                        ELSE IF s.o.k = "val" THEN IsVal(o, s.o.v)
                        ELSE o.k = s.o.k
    [] s.k = "ref" -> o.k = "ref" /\ o.at = s.at /\ o.n = s.n /\ o.len = s.len
    [] s.k = "fb" -> AcceptFbType(s.s, o)
    [] s.k = "free" -> o.k \in {"panic", "val"}
    [] OTHER -> TRUE
\* a canonical outcome satisfying a result spec (used by the reference design)
Canon(s) ==
  CASE s.k = "exact" -> s.o
    [] s.k = "ref" -> s
    [] s.k = "fb" -> s.s
    [] OTHER -> Panic

\* result spec of field(name, f) on an image, given the getter's abstract result g
FieldCallSpec(mem, name, f, g) ==
  CASE g.k = "absent" -> Exact(None)
    [] g.k = "panic" -> Exact(Panic)
    [] g.k = "freeabsent" -> [k |-> "panicornone"]
    [] OTHER ->
         LET ft == IF name = "framebuffer" THEN FbTypeSpec(mem, g.it) ELSE Unit IN
         IF name = "framebuffer" /\ f # "buffer_type" /\ ft.k = "panic" THEN Exact(Panic)
         ELSE IF name = "framebuffer" /\ f # "buffer_type" /\ ft.k = "err" THEN [k |-> "fb", s |-> ft]
         ELSE FieldSpec(mem, name, f, g.it)

AcceptField(mem, name, f, o) ==
  LET g == EffGet(mem, name)  s == FieldCallSpec(mem, name, f, g) IN
  IF s.k = "panicornone" THEN o.k \in {"panic", "none"}
  ELSE (g.k = "free" /\ o.k = "panic") \/ AcceptBySpec(s, o)

AcceptStrCall(mem, name, o) ==
  LET g == EffGet(mem, name)  K == InfoKind(name) IN
  CASE g.k = "absent" -> o.k = "none"
    [] g.k = "panic" -> o.k = "panic"
    [] OTHER -> AcceptStr(StrSpec(Bytes(mem, g.it.at + K.base, g.it.size - K.base), g.it.at + K.base), o)

\* i-th memory area of the memory map
AreaSpec(mem, i, f, g) ==
  CASE g.k = "absent" -> Exact(None)
    [] g.k = "panic" -> Exact(Panic)
    [] OTHER ->
         LET ar == MmapAreasSpec(mem, g.it) IN
         IF ar.k = "panic" THEN Exact(Panic)
         ELSE IF i >= ar.n THEN Exact(None)
         ELSE LET a == ar.at + i * AreaSize IN
              CASE f = "at" -> RefSpec(a, 1, AreaSize)
                [] f = "start_address" -> Exact(Val(Bytes(mem, a, 8)))
                [] f = "size" -> Exact(Val(Bytes(mem, a + 8, 8)))
                [] f = "typ" -> Exact(Val(Bytes(mem, a + 16, 4)))
                [] f = "end_address" ->
                     IF CarryOut(Bytes(mem, a, 8), Bytes(mem, a + 8, 8), 0) = 1 THEN [k |-> "free"]
                     ELSE Exact(Val(AddLE(Bytes(mem, a, 8), Bytes(mem, a + 8, 8), 0)))
                [] OTHER -> [k |-> "any"]
AcceptArea(mem, i, f, o) == AcceptBySpec(AreaSpec(mem, i, f, EffGet(mem, "mmap")), o)

\* ---- C15: user-defined tag types viewed through the public get_tag -----------------------------------
\* call: [op "custom_get", t (type name), id (tag type number), sized, words | fixed, es (element size), ea (element alignment), sa (alignment of the type)]
CustomFind(c, call) == FindSpecT(InfoWalk(c.mem), call.id)
AcceptCustomGet(c, call, o) ==
  LET f == CustomFind(c, call) IN
  CASE f.k = "absent" -> o.k = "none"
    [] f.k = "panic" -> o.k = "panic"
    [] OTHER ->
         \/ o.k = "panic"
         \/ /\ o.k = "some" /\ o.v.at = f.it.at /\ o.v.sv = RoundUp8(f.it.size)
            \* the typed view's fields alias the tag's bytes
            /\ IF call.sized
               THEN o.v.fat = f.it.at + 8 /\ o.v.first = Bytes(c.mem, f.it.at + 8, Min(4, 4 * call.words))
               ELSE /\ o.v.tat = f.it.at + RoundUp(call.fixed, call.ea)
                    /\ o.v.tlen = o.v.n * call.es
                    /\ o.v.sv = SizeOfVal(call.fixed, call.es, call.ea, o.v.n, 8)
IsInfoRead(call) == call.op \in {"get", "field", "str", "area"}
AcceptInfoRead(c, trk, call, o) ==
  IF trk.loaded # "bi" THEN o.k = "skipped"
  ELSE CASE call.op = "get" -> AcceptGet(c.mem, call.kind, o)
         [] call.op = "field" -> AcceptField(c.mem, call.kind, call.f, o)
         [] call.op = "str" -> AcceptStrCall(c.mem, call.kind, o)
         [] call.op = "area" -> AcceptArea(c.mem, call.i, call.f, o)

KindOfCall(call) == IF call.op = "area" THEN "mmap" ELSE call.kind
\* content-level conformance beyond the size: a palette that fits, 24-byte memory-map entries
SpecConformant(mem, name, it) ==
  CASE name = "framebuffer" -> FbTypeSpec(mem, it).k # "panic"
    [] name = "mmap" -> MmapAreasSpec(mem, it).k # "panic"
    [] name = "rsdpv2" -> U32At(mem, it.at + 28) <= RsdpV2Max
    [] OTHER -> TRUE
\* C05: extents of variable-length kinds; undersized / non-divisible sizes are rejected by a panic
C05_Accept(c, trk, call, o) ==
  IF ~IsInfoRead(call) \/ trk.loaded # "bi" THEN TRUE
  ELSE LET K == InfoKind(KindOfCall(call))  f == FindSpec(InfoWalk(c.mem), K.id) IN
       (K.dst /\ f.k = "found" /\ call.op # "str") => AcceptInfoRead(c, trk, call, o)
\* C15: a typed view either panics or sits at the tag's address with the tag's rounded size
\* any tag viewed as any tag type: a panic, or a view at the tag's address with the tag's rounded size
AcceptCastItem(c, trk, call, o) ==
  IF ~HasIt(trk, call.it) THEN o.k = "skipped"
  ELSE LET s == ItOf(trk, call.it)  w == InfoWalk(c.mem) IN
       IF s.dead THEN o.k \in {"panic", "none"}
       ELSE IF s.k < Len(w.items) THEN
            LET it == w.items[s.k + 1]  K == InfoKind(call.to) IN
            \/ o.k = "panic"
            \/ /\ o.k = "some" /\ o.v.at = it.at /\ o.v.sv = RoundUp8(it.size)
               \* a variable-length target type truthfully computing its element count cannot accept an undersized or ragged tag
               /\ (call.to # "generic" /\ K.dst => it.size >= K.base /\ (it.size - K.base) % K.elem = 0)
       ELSE IF w.fin = "none" THEN o.k = "none" ELSE o.k = "panic"
\* ref_from_slice on the whole image as a generic tag, then cast to a sized user-defined type
AcceptSliceCast(c, call, o) ==
  LET d == Declared(c, HTAG)  s == RefFromSliceSpec(HTAG, Len(c.mem), Al(c), d) IN
  IF s.k = "err" THEN o.k = "err"
  ELSE IF s.k = "free" THEN Controlled(o)
  ELSE o.k = "panic" \/ (o.k = "some" /\ o.v.at = 0 /\ o.v.sv = RoundUp8(d))
C15_Accept(c, trk, call, o) ==
  IF call.op = "slice_cast" THEN AcceptSliceCast(c, call, o)
  ELSE IF call.op = "cast_item" THEN AcceptCastItem(c, trk, call, o)
  ELSE IF call.op = "custom_get" THEN (IF trk.loaded # "bi" THEN o.k = "skipped" ELSE AcceptCustomGet(c, call, o))
  \* the typed view's fields alias the tag's bytes: whatever an accessor hands out lies inside the (rounded) tag
  ELSE IF call.op \in {"field", "str", "area"} /\ trk.loaded = "bi" THEN
       LET K == InfoKind(KindOfCall(call))  f == FindSpec(InfoWalk(c.mem), K.id) IN
       f.k = "found" => \A e \in Exts(o) : Inside(e, f.it.at, f.it.at + RoundUp8(f.it.size))
  ELSE IF call.op # "get" \/ trk.loaded # "bi" THEN TRUE
  ELSE LET K == InfoKind(call.kind)  f == FindSpec(InfoWalk(c.mem), K.id) IN
       f.k = "found" =>
         \/ o.k \in {"panic", "none"}
         \/ (o.k = "some" /\ Has(o.v, "at") /\ o.v.at = f.it.at /\ o.v.sv = RoundUp8(f.it.size))
         \/ (o.k = "some" /\ Has(o.v, "k") /\ (o.v.k = "err" \/ (o.v.v.at = f.it.at /\ o.v.v.sv = RoundUp8(f.it.size))))
\* C17 (parse side): NUL / UTF-8 rules inside the declared size
\* ... and the Debug rendering of a string tag never shows an Ok("...") string where the accessor refuses the bytes (how
\* Debug renders a valid string is not specified: only that it does not present as a string what is not one)
C17_Accept(c, trk, call, o) ==
  IF call.op = "dbg" /\ trk.loaded = "bi" /\ o.k = "unit" /\ Has(o, "sok") /\ call.what \in {"cmdline", "bootloader"} THEN
     LET g == EffGet(c.mem, call.what)  K == InfoKind(call.what) IN
     (g.k = "must" /\ StrSpec(Bytes(c.mem, g.it.at + K.base, g.it.size - K.base), g.it.at + K.base).k # "ok") => o.sok = 0
  ELSE IF call.op # "str" THEN TRUE ELSE AcceptInfoRead(c, trk, call, o)
\* a getter / accessor whose walk panics before a match must panic (C03)
C03_InfoRead(c, trk, call, o) ==
  IF ~IsInfoRead(call) \/ trk.loaded # "bi" THEN TRUE
  ELSE EffGet(c.mem, KindOfCall(call)).k = "panic" /\ FindSpec(InfoWalk(c.mem), InfoKind(KindOfCall(call)).id).k = "panic"
       => o.k = "panic"

\* ---- C18 / C19: iterators driven by stored strides and counts ------------------------------------
NoExt == [k |-> "none"]
ExtOf(c) == IF Has(c, "ext") THEN [k |-> "ext", addr |-> c.ext.addr, data |-> c.ext.data] ELSE NoExt
\* creating the iterator: the tag must be there; an invalid map / non-fitting section table is
\* rejected here or at the first iterator call
AcceptIterNew(c, kind, valid, o) ==
  LET g == EffGet(c.mem, kind) IN
  CASE g.k = "absent" -> o.k = "none"
    [] g.k = "panic" -> o.k = "panic"
    [] g.k = "freeabsent" -> o.k \in {"panic", "none"}
    [] OTHER -> IF valid THEN o.k = "unit" ELSE o.k \in {"panic", "unit"}
EfiIt(c) == EffGet(c.mem, "efi_mmap").it
ElfIt(c) == EffGet(c.mem, "elf").it
HasTagIt(c, kind) == EffGet(c.mem, kind).k \in {"must", "free"}
\* The getter withholds the map while a boot-services tag is present; the walk-and-cast route (via = "cast") does not.
\* An iterator over a withheld map can only have come from that route: nothing but a controlled outcome is demanded of it.
EfiViaOnly(c, o) == GetSpec(c.mem, "efi_mmap").k \in {"must", "free"} /\ Controlled(o)
C18_Accept(c, trk, call, o) ==
  CASE call.op = "efi_areas" /\ Has(call, "via") /\ trk.loaded = "bi" /\ EffGet(c.mem, "efi_mmap").k # GetSpec(c.mem, "efi_mmap").k ->
         Controlled(o)
    [] call.op = "efi_areas" ->
         IF trk.loaded # "bi" THEN o.k = "skipped"
         ELSE AcceptIterNew(c, "efi_mmap", HasTagIt(c, "efi_mmap") /\ EfiValid(EfiParams(c.mem, EfiIt(c))), o)
    [] call.op \in {"nth", "count", "last"} /\ HasIt(trk, call.it) /\ ItOf(trk, call.it).kind = "efi" ->
         LET s == ItOf(trk, call.it) IN
         IF ~HasTagIt(c, "efi_mmap") THEN EfiViaOnly(c, o)
         ELSE LET p == EfiParams(c.mem, EfiIt(c)) IN
              IF ~EfiValid(p) THEN o.k = "panic" \/ (s.dead /\ o.k = "none")
              ELSE IF s.dead THEN TRUE
              ELSE IF call.op = "count" THEN IsVal(o, U64Bytes(EfiRem(p, s.k)))
              ELSE IF call.op = "last" THEN
                   (IF EfiRem(p, s.k) > 0 THEN o.k = "some" /\ o.v.at = EfiItem(c.mem, EfiIt(c), p, EfiCount(p) - 1).at ELSE o.k = "none")
              ELSE IF s.k + call.n < EfiCount(p) THEN o.k = "some" /\ o.v.at = EfiItem(c.mem, EfiIt(c), p, s.k + call.n).at
              ELSE o.k = "none"
    [] call.op \in {"next", "len", "size_hint"} /\ HasIt(trk, call.it) /\ ItOf(trk, call.it).kind = "efi" ->
         LET s == ItOf(trk, call.it) IN
         IF ~HasTagIt(c, "efi_mmap") THEN EfiViaOnly(c, o)      \* an iterator over a tag that is not there
         ELSE (CASE call.op = "next" -> AcceptEfiNext(c.mem, EfiIt(c), s.k, s.dead, o)
                 [] call.op = "len" -> AcceptEfiLen(c.mem, EfiIt(c), s.k, s.dead, o)
                 [] OTHER -> AcceptEfiHint(c.mem, EfiIt(c), s.k, s.dead, o))
    \* Debug of the map tag (and of the whole boot information) iterates too: it ends in a controlled way
    [] call.op = "dbg" /\ call.what \in {"efi_mmap", "bi"} /\ HasTagIt(c, "efi_mmap") -> Controlled(o)
    [] OTHER -> TRUE
\* BootInformation::elf_sections() (deprecated): its own additional bound entry_size * shndx <= size may reject
\* more than sections() does (with no sections, or in 32-bit arithmetic that overflows); where that bound holds as
\* well, it is the plain getter: the iterator, never a panic
ElfDeprValid(c) ==
  /\ HasTagIt(c, "elf") /\ ElfFits(ElfParams(c.mem, ElfIt(c)))
  /\ LET p == ElfParams(c.mem, ElfIt(c)) IN p.shndx < Far /\ MulFits(p.es, p.shndx, ElfIt(c).size)
AcceptElfDeprecated(c, trk, o) ==
  IF trk.loaded # "bi" THEN o.k = "skipped" ELSE AcceptIterNew(c, "elf", ElfDeprValid(c), o)
\* C05 for the two kinds whose variable-length part is exposed through an iterator: whatever iteration hands out (by any
\* route: the tag's own method, the deprecated getter, nth / last) lies inside the variable-length part of the tag - a
\* descriptor inside the map bytes, a section only from a table that fits the tag - and Debug formatting, which
\* iterates as well, ends in a controlled way
C05_IterAccept(c, trk, call, o) ==
  CASE call.op \in {"next", "nth", "last"} /\ HasIt(trk, call.it) /\ ItOf(trk, call.it).kind = "efi" /\ HasTagIt(c, "efi_mmap") ->
         Controlled(o) /\ \A e \in Exts(o) : Inside(e, EfiIt(c).at + 16, EfiIt(c).at + EfiIt(c).size)
    [] call.op \in {"next", "nth", "last"} /\ HasIt(trk, call.it) /\ ItOf(trk, call.it).kind = "elf" /\ HasTagIt(c, "elf") ->
         Controlled(o) /\ (~ElfFits(ElfParams(c.mem, ElfIt(c))) => o.k # "some")
    [] call.op = "dbg" /\ call.what \in {"efi_mmap", "elf"} -> Controlled(o)
    [] OTHER -> TRUE
\* Debug formatting of a conformant tag (a tag its typed getter accepts and whose content-level rules hold) succeeds:
\* a controlled panic is what malformed input may end in, not well-formed input
DbgConformant(c, name) ==
  LET g == EffGet(c.mem, name) IN
  \/ g.k = "absent"
  \/ /\ g.k = "must" /\ SpecConformant(c.mem, name, g.it)
     /\ (name = "vbe" => Bytes(c.mem, g.it.at + 555, 1)[1] < 8)              \* (the enum-typed byte: known finding otherwise)
     /\ (name = "efi_mmap" => EfiValid(EfiParams(c.mem, g.it)))
     /\ (name = "elf" => LET p == ElfParams(c.mem, g.it) IN ElfFits(p) /\ (p.n = 0 \/ p.es \in {40, 64}))
\* C04: first-match selection and exact decoding for conformant tags (and "nothing" when absent)
C04_Accept(c, trk, call, o) ==
  IF call.op = "dbg" /\ trk.loaded = "bi" /\ call.what \in InfoKindNames THEN DbgConformant(c, call.what) => o.k = "unit"
  ELSE IF call.op = "elf_sections_deprecated" /\ trk.loaded = "bi" THEN
     (EffGet(c.mem, "elf").k = "absent" \/ ElfDeprValid(c)) => AcceptElfDeprecated(c, trk, o)
  \* module_tags(): every module tag of the walk, in order (where the walk itself is sound and the module tags conformant)
  ELSE IF (call.op = "module_tags" \/ (call.op \in {"next", "count"} /\ HasIt(trk, call.it) /\ ItOf(trk, call.it).kind = "module_tags"))
          /\ trk.loaded = "bi" /\ InfoWalk(c.mem).fin = "none"
          /\ (\A i \in 1..Len(ModItems(InfoWalk(c.mem))) : ModItems(InfoWalk(c.mem))[i].size >= ModuleBase)
       THEN C03_Accept(c, trk, call, o)
  ELSE IF ~IsInfoRead(call) \/ trk.loaded # "bi" THEN TRUE
  ELSE LET g == EffGet(c.mem, KindOfCall(call)) IN
       (g.k = "absent" \/ (g.k = "must" /\ SpecConformant(c.mem, KindOfCall(call), g.it))) /\ call.op # "str"
          => AcceptInfoRead(c, trk, call, o)
\* number of sections all ELF-sections tags of the walk yield together (cases where every such table fits)
RECURSIVE SumSeq(_)
SumSeq(xs) == IF xs = <<>> THEN 0 ELSE xs[1] + SumSeq(Tail(xs))
ElfAllCount(mem) ==
  LET w == InfoWalk(mem)  ts == SelectSeq(w.items, LAMBDA it : it.typ = U32Bytes(9)) IN
  SumSeq([i \in 1..Len(ts) |-> Len(ElfItems(mem, ts[i], ElfParams(mem, ts[i])))])
ElfAllOk(mem) ==
  LET w == InfoWalk(mem)  ts == SelectSeq(w.items, LAMBDA it : it.typ = U32Bytes(9)) IN
  /\ w.fin = "none"
  /\ \A i \in 1..Len(ts) : /\ ts[i].size >= ElfBase
                            /\ LET p == ElfParams(mem, ts[i]) IN ElfFits(p) /\ (p.n = 0 \/ p.es \in {40, 64})
C19_Accept(c, trk, call, o) ==
  CASE call.op = "elf_sections" ->
         IF trk.loaded # "bi" THEN o.k = "skipped"
         ELSE AcceptIterNew(c, "elf", HasTagIt(c, "elf") /\ ElfFits(ElfParams(c.mem, ElfIt(c))), o)
    [] call.op = "elf_sections_deprecated" -> AcceptElfDeprecated(c, trk, o)
    [] call.op \in {"nth", "count", "last"} /\ HasIt(trk, call.it) /\ ItOf(trk, call.it).kind = "elf" ->
         LET s == ItOf(trk, call.it) IN
         IF ~HasTagIt(c, "elf") THEN FALSE
         ELSE LET p == ElfParams(c.mem, ElfIt(c)) IN
              IF ~ElfFits(p) THEN o.k = "panic" \/ (s.dead /\ o.k \in {"none", "val"})
              ELSE IF p.es \notin {40, 64} \/ s.dead THEN Controlled(o)
              ELSE LET xs == ElfItems(c.mem, ElfIt(c), p)  rem == IF s.k <= Len(xs) THEN Len(xs) - s.k ELSE 0 IN
                   CASE call.op = "count" -> IsVal(o, U64Bytes(rem))
                     [] call.op = "last" -> IF rem > 0 THEN IsElfItem(o, xs[Len(xs)]) ELSE o.k = "none"
                     [] OTHER -> IF s.k + call.n < Len(xs) THEN IsElfItem(o, xs[s.k + call.n + 1]) ELSE o.k = "none"
    [] call.op = "next" /\ HasIt(trk, call.it) /\ ItOf(trk, call.it).kind = "elf" ->
         LET s == ItOf(trk, call.it) IN
         IF ~HasTagIt(c, "elf") THEN FALSE
         ELSE AcceptElfNext(c.mem, ElfIt(c), ExtOf(c), s.k, s.dead, o)
    \* Debug of the sections tag (and of the whole boot information) iterates too: it ends in a controlled way
    [] call.op = "dbg" /\ call.what \in {"elf", "bi"} /\ HasTagIt(c, "elf") -> Controlled(o)
    \* the sections of all ELF-sections tags as values: each equals itself and nothing else, == agrees with cmp and hash
    [] call.op = "elf_cmp" /\ trk.loaded = "bi" ->
         IF ElfAllOk(c.mem) THEN o.k = "cmp" /\ o.n = ElfAllCount(c.mem) /\ o.eq = o.n /\ o.consistent = 1
         ELSE Controlled(o)            \* some table does not fit / has a foreign entry size: a panic is in order
    [] OTHER -> TRUE
\* calls on an iterator that was never created are recorded as skipped
C_Skipped(c, trk, call, o) ==
  (call.op \in {"next", "len", "size_hint", "clone"} /\ ~HasIt(trk, call.it)) => o.k = "skipped"

\* ---- header crate: C09 / C10 / C11 / C13 ---------------------------------------------------------
HeaderOps == {"hload", "htags", "hget", "hfield", "hacc", "hdbg", "hview"}
IsHdrRead(call) == call.op \in {"hget", "hfield"}
AcceptHNext(w, k, dead, o) ==
  IF dead THEN o.k \in {"panic", "none"}
  ELSE IF k < Len(w.items) THEN
       LET it == w.items[k + 1] IN
       /\ o.k = "some" /\ o.v.at = it.at /\ o.v.typ = SubSeq(it.typ, 1, 2) /\ o.v.flags = SubSeq(it.typ, 3, 4)
       /\ o.v.size = U32Bytes(it.size) /\ o.v.pat = it.at + 8 /\ o.v.plen = it.size - 8 /\ o.v.sv = RoundUp8(it.size)
  ELSE IF w.fin = "none" THEN o.k = "none" ELSE o.k = "panic"
HFieldSpec(mem, name, f, it) ==
  LET K == HeaderKind(name) IN
  IF name = "info_req" /\ f = "requests" THEN RefSpec(it.at + 8, (it.size - 8) \div 4, it.size - 8)
  ELSE LET fld == HFieldNamed(K, f) IN
       IF fld.n = "?" THEN [k |-> "any"] ELSE Exact(Val(ZExt(Bytes(mem, it.at + fld.off, fld.w), fld.rw)))
AcceptHdrRead(c, trk, call, o) ==
  IF trk.loaded # "hdr" THEN o.k = "skipped"
  ELSE LET g == HGetSpec(c.mem, call.kind) IN
       CASE g.k = "absent" -> o.k = "none"
         [] g.k = "panic" -> o.k = "panic"
         [] OTHER -> IF call.op = "hget" THEN (g.k = "free" /\ o.k = "panic") \/ IsView(o, g.it)
                     ELSE (g.k = "free" /\ o.k = "panic") \/ AcceptBySpec(HFieldSpec(c.mem, call.kind, call.f, g.it), o)
\* a tag of the walk, by its position, viewed as a (possibly different) sized header-tag kind - the three entry-address
\* kinds are documented as layout-identical, and a loader dispatching on typ() views all of them through one struct.
\* The cast goes through iff the padded sizes agree; every accessor then decodes the bytes STORED in the tag (typ() the
\* stored type, not the view's constant).  Enumerated fields are judged only where the stored value is one the
\* enumeration defines (anything else is the caller's undefined behaviour, not the accessor's).
HEnumRange(f) == CASE f = "flags" -> 2 [] f = "console_flags" -> 2 [] f = "preference" -> 3 [] OTHER -> 0
HViewSpec(mem, call) ==
  LET w == HWalk(mem)  K == HeaderKind(call.view) IN
  IF call.i >= Len(w.items) THEN [k |-> IF w.fin = "none" THEN "none" ELSE "free"]
  ELSE LET it == w.items[call.i + 1]  fld == HFieldNamed(K, call.f) IN
       IF RoundUp8(it.size) # RoundUp8(K.wire) THEN [k |-> "panic"]
       ELSE IF fld.n = "?" THEN [k |-> "free"]
       ELSE LET raw == Bytes(mem, it.at + fld.off, fld.w) IN
            IF call.f = "typ" /\ ~\E n \in HeaderKindNames : HeaderKind(n).id = LE2(raw) THEN [k |-> "free"]
            ELSE IF HEnumRange(call.f) > 0 /\ (raw[1] >= HEnumRange(call.f) \/ \E j \in 2..Len(raw) : raw[j] # 0) THEN [k |-> "free"]
            ELSE [k |-> "val", v |-> ZExt(raw, fld.rw)]
AcceptHView(c, trk, call, o) ==
  IF trk.loaded # "hdr" THEN o.k = "skipped"
  ELSE LET s == HViewSpec(c.mem, call) IN
       CASE s.k = "none" -> o.k = "none"
         [] s.k = "panic" -> o.k = "panic"
         [] s.k = "val" -> IsVal(o, s.v)
         [] OTHER -> Controlled(o)
AcceptHAcc(c, trk, call, o) ==
  IF trk.loaded # "hdr" THEN o.k = "skipped"
  ELSE CASE call.f = "header_magic" -> IsVal(o, Bytes(c.mem, 0, 4))
         [] call.f = "arch" -> IsVal(o, Bytes(c.mem, 4, 4))
         [] call.f = "length" -> IsVal(o, Bytes(c.mem, 8, 4))
         [] call.f = "checksum" -> IsVal(o, Bytes(c.mem, 12, 4))
         [] call.f = "verify_checksum" -> o = BoolVal(TRUE)         \* a loaded header has a valid checksum
         [] OTHER -> TRUE
\* accessors of a bare basic header (16 bytes, not loaded): stored words and checksum validity
BasicSpec(mem, f) ==
  CASE f = "header_magic" -> Val(Bytes(mem, 0, 4))
    [] f = "arch" -> Val(Bytes(mem, 4, 4))
    [] f = "length" -> Val(Bytes(mem, 8, 4))
    [] f = "checksum" -> Val(Bytes(mem, 12, 4))
    [] f = "verify_checksum" -> BoolVal(ChecksumOk(Bytes(mem, 0, 4), Bytes(mem, 4, 4), Bytes(mem, 8, 4), Bytes(mem, 12, 4)))
    [] OTHER -> Unit
C10_Accept(c, trk, call, o) ==
  CASE call.op = "hload" ->
         IF Has(c, "memx") THEN (LET s == HLoadSpecX(c.memx) IN IF s.k = "err" THEN o.k = "err" /\ o.e = s.e ELSE o.k = "ok")
         ELSE AcceptHLoad(IsNull(call), c.mem, o)
    [] call.op = "basic" -> o = BasicSpec(c.mem, call.f)
    [] call.op = "calc_checksum" ->
         /\ o.k = "val" /\ ChecksumOk(call.magic, U32Bytes(call.arch), call.length, o.v)
         /\ o.twin = o.v
    \* a basic header finalised for a new length (set_size through new_boxed) carries the checksum of that length
    [] call.op = "new_boxed" /\ call.h = "mb" ->
         o.k = "ok" /\ Len(o.v.bytes) >= 16 =>
           ChecksumOk(Bytes(o.v.bytes, 0, 4), Bytes(o.v.bytes, 4, 4), Bytes(o.v.bytes, 8, 4), Bytes(o.v.bytes, 12, 4))
    [] OTHER -> TRUE
\* a header tag of a known type has its kind's size (information requests: 8 + 4 n)
HItemConformant(it) ==
  \A n \in HeaderKindNames :
     HeaderKind(n).id = LE2(SubSeq(it.typ, 1, 2)) =>
       IF n = "info_req" THEN it.size >= 8 /\ (it.size - 8) % 4 = 0 ELSE it.size = HeaderKind(n).wire
\* Debug of a conformant tag succeeds, and so does Debug of a header made of such tags (a controlled panic is what
\* malformed input may end in, not well-formed input)
HDbgOk(c, trk, call, o) ==
  IF call.op # "hdbg" \/ trk.loaded # "hdr" THEN TRUE
  ELSE IF call.what \in HeaderKindNames THEN HGetSpec(c.mem, call.what).k \in {"absent", "must"} => o.k = "unit"
  ELSE IF call.what = "hdr" THEN
       LET w == HWalk(c.mem) IN (w.fin = "none" /\ \A i \in 1..Len(w.items) : HItemConformant(w.items[i])) => o.k = "unit"
  ELSE TRUE
C11_Accept(c, trk, call, o) ==
  CASE call.op = "hdbg" -> HDbgOk(c, trk, call, o)
    [] call.op = "hacc" -> AcceptHAcc(c, trk, call, o)
    [] call.op = "htags" -> IF trk.loaded = "hdr" THEN o.k = "unit" ELSE o.k = "skipped"
    [] call.op = "next" /\ HasIt(trk, call.it) /\ ItOf(trk, call.it).kind = "htags" ->
         LET s == ItOf(trk, call.it) IN AcceptHNext(HWalk(c.mem), s.k, s.dead, o)
    [] call.op = "for_each" /\ HasIt(trk, call.it) /\ ItOf(trk, call.it).kind = "htags" ->
         LET s == ItOf(trk, call.it) IN AcceptWalkRest(HWalk(c.mem), s.k, s.dead, o)
    [] call.op = "size_hint" /\ HasIt(trk, call.it) /\ ItOf(trk, call.it).kind = "htags" ->
         LET s == ItOf(trk, call.it) IN AcceptWalkHint(WalkRem(HWalk(c.mem), s.k), s.dead, o)
    [] call.op \in {"nth", "count", "last"} /\ HasIt(trk, call.it) /\ ItOf(trk, call.it).kind = "htags" ->
         LET s == ItOf(trk, call.it)  w == HWalk(c.mem) IN
         IF call.op = "nth" THEN AcceptWalkNth(w, s.k, s.dead, call.n, o)
         ELSE IF call.op = "last" THEN AcceptWalkLast(w, s.k, s.dead, o) ELSE AcceptWalkCount(w, s.k, s.dead, o)
    [] IsHdrRead(call) ->
         IF trk.loaded # "hdr" THEN o.k = "skipped"
         ELSE LET g == HGetSpec(c.mem, call.kind) IN
              g.k \in {"absent", "must", "panic"} => AcceptHdrRead(c, trk, call, o)
    [] call.op = "hview" -> AcceptHView(c, trk, call, o)
    [] OTHER -> TRUE
\* C05 for the header crate: the information-request list
C05_HAccept(c, trk, call, o) ==
  IF ~IsHdrRead(call) \/ trk.loaded # "hdr" \/ call.kind # "info_req" THEN TRUE
  ELSE AcceptHdrRead(c, trk, call, o)
\* C09: never outside the declared header, never a crash
C09_Accept(c, trk, call, o) ==
  \* a header or header tag parsed standalone from a caller's slice: the structure handed out lies inside that slice
  IF call.op \in {"ref_from_slice", "ref_from_bytes", "bytes_ref"} /\ call.h \in {"mb", "htag"}
  THEN Controlled(o) /\ (o.k = "ok" => (Has(o.v, "sv") => o.v.at >= 0 /\ o.v.at + o.v.sv <= Len(c.mem))
                                       /\ (Has(o.v, "len") => o.v.at >= 0 /\ o.v.at + o.v.len <= Len(c.mem)))
       \* ... and inside the length the structure itself declares (rounded up to its padding), not merely inside the slice
       /\ (call.op # "bytes_ref" /\ o.k = "ok" => o.v.sv <= RoundUp8(Max(Declared(c, HeaderByName(call.h)), HeaderByName(call.h).hsize)))
  \* a declared length below 16 is refused as too short whatever lies behind it (nothing behind it is looked at)
  ELSE IF call.op = "hload" /\ ~Has(c, "memx") /\ ~IsNull(call) /\ Len(c.mem) >= 12 /\ U32At(c.mem, 8) < 16
  THEN Controlled(o) /\ AcceptHLoad(FALSE, c.mem, o)
  ELSE IF ~HDbgOk(c, trk, call, o) THEN FALSE
  ELSE IF call.op \in HeaderOps \/ (call.op \in {"next", "clone", "nth", "count", "last", "size_hint", "for_each"} /\ HasIt(trk, call.it) /\ ItOf(trk, call.it).kind = "htags")
  THEN /\ Controlled(o)
       /\ LET L == U32At(c.mem, 8) IN \A e \in Exts(o) : Inside(e, 16, L)
  ELSE TRUE
C13_Accept(c, trk, call, o) ==
  IF call.op # "find_header" THEN TRUE
  ELSE IF Al(c) # 0 THEN o.k = "err"                \* the statement is about 8-aligned buffers; misaligned ones are refused
  ELSE AcceptHdrFind(IF Has(c, "memx") THEN HdrFindSpecX(c.memx, 8192) ELSE HdrFindSpec(c.mem, 8192), o)

\* ---- construction side: C07 / C16 / C17 / C06 / C12 --------------------------------------------------
CtorKind(call) == IF call.op = "construct" THEN call.kind ELSE call.slot
BoxedKind(name) == name \in {"custom", "info_req"} \/ (name \in InfoKindNames /\ InfoKind(name).dst)
\* a heap-allocated tag handed to a builder's setter lies at an 8-aligned address, in an allocation that was requested
\* 8-aligned with the tag's rounded size (the recorded events also contain the harness's own argument parsing: only the
\* allocation of the tag itself is judged)
SuppliedHeapOk(v) ==
  Has(v, "allocs") =>
    /\ v.al = 0
    /\ LET A == {i \in 1..Len(v.allocs) : v.allocs[i].ev = "alloc" /\ v.allocs[i].id = v.obj} IN
       A # {} => LET a == v.allocs[CHOOSE i \in A : \A j \in A : i >= j] IN a.size = v.sv /\ a.align % 8 = 0 /\ a.align > 0
AcceptCtor(call, o) ==
  LET name == CtorKind(call) IN
  IF CtorPanics(name, call) THEN o.k = "panic"
  ELSE LET E == Enc(name, call) IN
       /\ o.k = "ok"
       /\ EqUpTo(o.v.bytes, E, Len(E), name = "efi_mmap" /\ Has(call, "descs"))
       /\ o.v.sv = RoundUp8(Len(E))
       /\ (Has(o.v, "id_const") => o.v.id_const = CtorId(name, call))
       /\ (Has(o.v, "place") => \A i \in 1..Len(o.v.place) : o.v.place[i].ok)       \* byte view obtainable wherever placed
       /\ (Has(o.v, "as_bytes") => o.v.as_bytes = o.v.sv)
       /\ (BoxedKind(name) => SuppliedHeapOk(o.v))                  \* a heap-allocated tag: requested and placed 8-aligned
       \* read-back of the framebuffer type through buffer_type()
       /\ (Has(o.v, "rb_fb") =>
             /\ o.v.rb_fb.k = "ok" /\ o.v.rb_fb.t = call.fbtype
             /\ (call.fbtype = "rgb" => o.v.rb_fb.v = call.rgb)
             /\ (call.fbtype = "indexed" => o.v.rb_fb.n = Len(call.palette) /\ o.v.rb_fb.at = 34))
       /\ (Has(o.v, "rb") => o.v.rb = [k |-> "ok", v |-> IF call.text # <<>> /\ call.text[Len(call.text)] = 0
                                                          THEN SubSeq(call.text, 1, FirstNul(call.text) - 1) ELSE call.text])
C07_Accept(c, trk, call, o) ==
  IF call.op = "construct" \/ (call.op = "b_set" /\ trk.hasb) \/ (call.op = "hb_set" /\ trk.hashb)
  THEN AcceptCtor(call, o)
  \* read-back: accessors applied to a structure built from constructed tags decode what was stored
  ELSE IF trk.img = "info" /\ IsInfoRead(call) THEN C04_Accept(c, trk, call, o)
  \* ... also through the iterators (tags, modules, EFI descriptors, ELF sections) of the built structure
  ELSE IF trk.img = "info" /\ call.op \in {"tags", "module_tags", "efi_areas", "elf_sections", "next", "len", "size_hint", "nth", "count", "last"}
       THEN C03_Accept(c, trk, call, o) /\ C18_Accept(c, trk, call, o) /\ C19_Accept(c, trk, call, o)
  ELSE IF trk.img = "header" /\ (IsHdrRead(call) \/ call.op \in {"hacc", "hview"}) THEN C11_Accept(c, trk, call, o)
  ELSE TRUE
\* "an equal tag" also in the sense of the type's own PartialEq (where the type has one)
CloneEq(cl) == Has(cl, "eq") => cl.eq = 1
\* C17 (build side): string tags store the text and exactly one terminating NUL
C17_Build(c, trk, call, o) ==
  IF call.op \in {"construct", "b_set"} /\ CtorKind(call) \in {"cmdline", "bootloader", "module"}
     /\ (call.op = "construct" \/ trk.hasb)
  THEN /\ AcceptCtor(call, o)
       \* ... and a clone of the string tag carries the same text: same declared size, same bytes up to it
       /\ (o.k = "ok" /\ Has(o.v, "clone") =>
             LET total == IF Len(o.v.bytes) >= 8 THEN U32At(o.v.bytes, 4) ELSE 0 IN
             EqUpTo(o.v.clone.bytes, o.v.bytes, total, FALSE) /\ CloneEq(o.v.clone))
  ELSE TRUE
\* the header kinds new_boxed is driven with: the crates' 8-byte tag headers, and two headers a user of the generic
\* function may define whose size is not a multiple of 8 (12 bytes: type, size, one more word; 4 bytes: the size alone)
NewBoxedHSize(call) == CASE call.h = "h12" -> 12 [] call.h = "h4" -> 4 [] call.h = "mb" -> 16 [] OTHER -> 8
NewBoxedHead(call, total) ==
  CASE call.h = "htag" -> U16Bytes(1) \o U16Bytes(0) \o U32Bytes(total)
    [] call.h = "h12" -> call.typ \o U32Bytes(total) \o <<187, 204, 221, 238>>
    [] call.h = "h4" -> U32Bytes(total)
    \* the basic header of the header crate (taken from a built header, architecture in call.typ): setting the size
    \* re-establishes the checksum for the new length
    [] call.h = "mb" -> HdrMagic \o call.typ \o U32Bytes(total) \o ChecksumBytes(HdrMagic, call.typ, U32Bytes(total))
    [] OTHER -> call.typ \o U32Bytes(total)
C16_Accept(c, trk, call, o) ==
  CASE call.op = "clone_ref" ->
         \* cloning the structure found in the image: same declared size, same bytes up to it
         LET H == HeaderByName(call.h)  s == RefFromSliceSpec(H, Len(c.mem), Al(c), Declared(c, H)) IN
         IF s.k = "err" THEN o.k = "err"
         ELSE IF s.k = "free" THEN Controlled(o)
         ELSE LET d == Declared(c, H) IN
              o.k = "ok" /\ EqUpTo(o.v.bytes, c.mem, d, FALSE) /\ o.v.sv = RoundUp8(d) /\ o.v.al = 0 /\ o.v.plen = d - H.hsize
    [] call.op = "new_boxed" ->
         LET body == FlatMap(LAMBDA x : x, call.slices)
             total == NewBoxedHSize(call) + Len(body)
             E == NewBoxedHead(call, total) \o body IN
         /\ o.k = "ok" /\ EqUpTo(o.v.bytes, E, total, FALSE) /\ HeapObjOk(o.v, total)
         /\ (Has(o.v, "clone") => EqUpTo(o.v.clone.bytes, E, total, FALSE) /\ HeapObjOk(o.v.clone, total) /\ CloneEq(o.v.clone))
    [] call.op = "construct" /\ BoxedKind(call.kind) /\ ~CtorPanics(call.kind, call) ->
         o.k = "ok" =>
           LET total == IF Len(o.v.bytes) >= 8 THEN U32At(o.v.bytes, 4) ELSE 0 IN
           /\ HeapObjOk(o.v, total)
           \* cloning is the identity: same declared size, same bytes up to it
           /\ (Has(o.v, "clone") => /\ EqUpTo(o.v.clone.bytes, o.v.bytes, total, FALSE)
                                    /\ HeapObjOk(o.v.clone, total) /\ CloneEq(o.v.clone))
    [] OTHER -> TRUE
C06_Accept(c, trk, call, o) ==
  CASE call.op = "b_set" /\ trk.hasb -> o.k = "ok" => SuppliedHeapOk(o.v)
    \* the built structure loads wherever its bytes lie (the Box itself, a copy at another 8-aligned address)
    [] call.op = "load" /\ trk.img = "info" -> o.k = "ok" /\ o.v.total = Len(trk.built)
    [] call.op = "use_built" ->
         IF (call.which = "info" /\ trk.built = <<>>) \/ (call.which = "header" /\ trk.hbuilt = <<>>) THEN o.k = "skipped" ELSE o.k = "unit"
    [] call.op = "b_build" -> IF ~trk.hasb THEN o.k = "skipped" ELSE o.k = "ok" /\ AcceptInfoBuild(trk.bld, o.v)
    [] call.op = "b_load" -> IF trk.built = <<>> THEN TRUE
                             ELSE o.k = "ok" /\ o.v.total = Len(trk.built) /\ o.v.ntags = Len(InfoWalk(trk.built).items)
    [] OTHER -> TRUE
C12_Accept(c, trk, call, o) ==
  CASE call.op = "hb_set" /\ trk.hashb -> o.k = "ok" => SuppliedHeapOk(o.v)
    [] call.op = "hload" /\ trk.img = "header" -> o.k = "ok"
    [] call.op = "hb_build" -> IF ~trk.hashb THEN o.k = "skipped" ELSE o.k = "ok" /\ AcceptHdrBuild(trk.harch, trk.hbld, o.v)
    [] call.op = "hb_load" -> IF trk.hbuilt = <<>> THEN TRUE
                              ELSE o.k = "ok" /\ o.v.length = U32Bytes(Len(trk.hbuilt)) /\ o.v.ntags = Len(HWalk(trk.hbuilt).items)
    [] OTHER -> TRUE

\* ---- C20 -------------------------------------------------------------------------------------------------
C20_Accept(c, trk, call, o) ==
  CASE call.op = "conv_tag_type" -> AcceptConvTagType(call.x, call.y, o)
    [] call.op = "conv_mem_area_type" -> AcceptConvMemArea(call.x, call.y, o)
    [] call.op = "conv_elf_type" -> AcceptConvElf(call.x, o)
    [] call.op = "magic" -> AcceptMagic(o)
    \* the framebuffer type byte of a stored tag is classified through the getter and through buffer_type()
    [] call.op \in {"get", "field"} /\ trk.loaded = "bi" /\ call.kind = "framebuffer" /\ (call.op = "get" \/ call.f = "buffer_type") ->
         EffGet(c.mem, "framebuffer").k = "must" => AcceptInfoRead(c, trk, call, o)
    [] OTHER -> TRUE

\* ---- C01: never outside the region, never a crash, references inside the owning tag ------------
InfoOps == {"elf_cmp", "cast_item", "nth", "count", "last", "custom_get", "load", "tags", "module_tags", "efi_areas", "elf_sections", "elf_sections_deprecated", "next", "clone",
            "len", "size_hint", "for_each", "get", "field", "str", "area", "dbg", "elf_field", "elf_name"}
\* the extent a call's results must stay in
OwnerExtent(c, trk, call) ==
  LET T == U32At(c.mem, 0) IN
  IF call.op \in {"get", "field", "str", "area"} THEN
     LET K == InfoKind(KindOfCall(call))  f == FindSpec(InfoWalk(c.mem), K.id) IN
     IF f.k # "found" THEN <<8, T>>
     ELSE IF call.op = "str" THEN <<f.it.at + K.base, f.it.at + f.it.size>>
     ELSE <<f.it.at, f.it.at + RoundUp8(f.it.size)>>
  ELSE IF call.op = "load" THEN <<0, T>>
  ELSE <<8, T>>
C01_Accept(c, trk, call, o) ==
  IF call.op \notin InfoOps \/ (call.op \in {"next", "clone", "len", "size_hint", "for_each", "nth", "count", "last", "cast_item"} /\ HasIt(trk, call.it)
                                /\ ItOf(trk, call.it).kind \in {"htags", "dummy"}) THEN TRUE
  ELSE /\ Controlled(o)
       /\ LET oe == OwnerExtent(c, trk, call) IN \A e \in Exts(o) : Inside(e, oe[1], oe[2])

\* ---- reference design of the session (constructive; drives the MC_* models) -----------
\* ds: loaded, its: id |-> [kind, cur, end, dead]
DsInit == [loaded |-> "none", its |-> <<>>, hasb |-> FALSE, bld |-> <<>>, built |-> <<>>,
           hashb |-> FALSE, hbld |-> <<>>, harch |-> 0, hbuilt |-> <<>>, img |-> "case"]
\* a heap object as the reference design lays it out: one allocation of the rounded size, released once
HeapOutcome(E) ==
  LET sv == RoundUp8(Len(E)) IN
  [bytes |-> PadTo8(E), sv |-> sv, al |-> 0, obj |-> 1, as_bytes |-> sv,
   allocs |-> <<[ev |-> "alloc", id |-> 1, size |-> sv, align |-> 8]>>,
   drops |-> <<[ev |-> "dealloc", id |-> 1, size |-> sv, align |-> 8]>>]
DesignCtor(call) ==
  LET name == CtorKind(call) IN
  IF CtorPanics(name, call) THEN Panic
  ELSE LET E == Enc(name, call) IN
       IF BoxedKind(name) THEN
          LET v == [id_const |-> CtorId(name, call)] @@ HeapOutcome(E) IN
          Ok(IF Has(call, "clone") /\ call.clone THEN [clone |-> HeapOutcome(E)] @@ v ELSE v)
       ELSE Ok([bytes |-> PadTo8(E), sv |-> RoundUp8(Len(E)), al |-> 0, id_const |-> CtorId(name, call),
                place |-> <<[res |-> 0, ok |-> TRUE]>>])
DsHasIt(ds, id) == id \in DOMAIN ds.its
DsSetIt(ds, id, v) == [ds EXCEPT !.its = (id :> v) @@ ds.its]

RECURSIVE DesignModNext(_, _, _, _)
\* ModuleIter::next = find() over the tag iterator
DesignModNext(mem, end, cur, dead) ==
  LET r == DesignTagNext(mem, end, cur, dead) IN
  IF r.o.k # "some" THEN r
  ELSE IF r.o.v.typ = ModuleTyp
       THEN IF r.o.v.plen < ModuleBase - 8 THEN [o |-> Panic, cur |-> r.cur, dead |-> FALSE]  \* dst_len assertion in cast; cursor already advanced
            ELSE [o |-> Some([at |-> r.o.v.at, size |-> r.o.v.size, sv |-> r.o.v.sv]), cur |-> r.cur, dead |-> r.dead]
       ELSE DesignModNext(mem, end, r.cur, r.dead)

\* get_tag: find() over a fresh tag iterator, then cast (size assertion)
RECURSIVE DesignFind(_, _, _, _)
DesignFind(mem, end, cur, typ) ==
  LET r == DesignTagNext(mem, end, cur, FALSE) IN
  IF r.o.k = "none" THEN [k |-> "absent"]
  ELSE IF r.o.k = "panic" THEN [k |-> "panic"]
  ELSE IF r.o.v.typ = typ THEN [k |-> "found", it |-> [at |-> r.o.v.at, typ |-> r.o.v.typ, size |-> LE4(r.o.v.size)]]
  ELSE DesignFind(mem, end, r.cur, typ)
DesignGetTag(mem, name) ==
  LET K == InfoKind(name)  f == DesignFind(mem, U32At(mem, 0), 8, U32Bytes(K.id)) IN
  IF f.k # "found" THEN f
  ELSE LET cst == IF K.dst THEN DesignCastDst(f.it.at, K.base, K.elem, IF K.elem = 24 THEN 8 ELSE 1, f.it.size)
                  ELSE DesignCastSized(f.it.at, RoundUp8(K.wire), f.it.size) IN
       IF cst.k = "panic" THEN [k |-> "panic"] ELSE [k |-> "must", it |-> f.it]
DesignEffGet(mem, name) ==
  IF name = "efi_mmap" THEN
     LET bs == DesignGetTag(mem, "efi_bs") IN
     CASE bs.k = "absent" -> DesignGetTag(mem, "efi_mmap")
       [] bs.k = "panic" -> bs
       [] OTHER -> [k |-> "absent"]
  ELSE DesignGetTag(mem, name)
DesignInfoRead(mem, call) ==
  LET name == KindOfCall(call)  g == DesignEffGet(mem, name) IN
  CASE call.op = "get" ->
         (CASE g.k = "absent" -> None
            [] g.k = "panic" -> Panic
            [] OTHER -> IF name = "framebuffer" THEN
                           LET ft == FbTypeSpec(mem, g.it) IN
                           IF ft.k = "panic" THEN Panic
                           ELSE IF ft.k = "err" THEN Some(ft)
                           ELSE Some(Ok(ViewRec(g.it)))
                        ELSE Some(ViewRec(g.it)))
    [] call.op = "field" -> Canon(FieldCallSpec(mem, name, call.f, g))
    [] call.op = "area" -> Canon(AreaSpec(mem, call.i, call.f, g))
    [] call.op = "str" ->
         (CASE g.k = "absent" -> None
            [] g.k = "panic" -> Panic
            [] OTHER -> LET K == InfoKind(name) IN
                        StrSpec(Bytes(mem, g.it.at + K.base, g.it.size - K.base), g.it.at + K.base))

\* header getters: find() over the header's tag iterator, then cast
RECURSIVE DesignHFind(_, _, _, _)
DesignHFind(mem, end, cur, typ2) ==
  LET r == DesignTagNext(mem, end, cur, FALSE) IN
  IF r.o.k = "none" THEN [k |-> "absent"]
  ELSE IF r.o.k = "panic" THEN [k |-> "panic"]
  ELSE IF SubSeq(r.o.v.typ, 1, 2) = typ2 THEN [k |-> "found", it |-> [at |-> r.o.v.at, typ |-> r.o.v.typ, size |-> LE4(r.o.v.size)]]
  ELSE DesignHFind(mem, end, r.cur, typ2)
DesignHdrRead(mem, call) ==
  LET K == HeaderKind(call.kind)  f == DesignHFind(mem, U32At(mem, 8), 16, U16Bytes(K.id)) IN
  CASE f.k = "absent" -> None
    [] f.k = "panic" -> Panic
    [] OTHER ->
         LET cst == IF K.dst THEN DesignCastDst(f.it.at, K.base, K.elem, 4, f.it.size)
                    ELSE DesignCastSized(f.it.at, RoundUp8(K.wire), f.it.size) IN
         IF cst.k = "panic" THEN Panic
         ELSE IF call.op = "hget" THEN Some(ViewRec(f.it))
         ELSE Canon(HFieldSpec(mem, call.kind, call.f, f.it))

\* the design of a positional view: step the iterator i + 1 times, cast (size assertion), read the stored field
RECURSIVE DesignHNth(_, _, _, _)
DesignHNth(mem, end, cur, n) ==
  LET r == DesignTagNext(mem, end, cur, FALSE) IN
  IF r.o.k # "some" \/ n = 0 THEN r.o ELSE DesignHNth(mem, end, r.cur, n - 1)
DesignHView(mem, call) ==
  LET r == DesignHNth(mem, U32At(mem, 8), 16, call.i)  K == HeaderKind(call.view) IN
  IF r.k # "some" THEN r
  ELSE IF DesignCastSized(r.v.at, RoundUp8(K.wire), LE4(r.v.size)).k = "panic" THEN Panic
  ELSE LET fld == HFieldNamed(K, call.f) IN
       IF fld.n = "?" THEN Panic ELSE Val(ZExt(Bytes(mem, r.v.at + fld.off, fld.w), fld.rw))

DesignCustomGet(c, call) ==
  LET f == DesignFind(c.mem, U32At(c.mem, 0), 8, call.id) IN
  CASE f.k = "absent" -> None
    [] f.k = "panic" -> Panic
    [] OTHER ->
         IF call.sized THEN
            LET r == DesignCastSized(f.it.at, RoundUp(8 + 4 * call.words, call.sa), f.it.size) IN
            IF r.k = "panic" THEN Panic
            ELSE Some([at |-> r.v.at, sv |-> r.v.sv, fat |-> f.it.at + 8, first |-> Bytes(c.mem, f.it.at + 8, Min(4, 4 * call.words))])
         ELSE
            LET r == DesignCastDst(f.it.at, call.fixed, call.es, call.ea, f.it.size) IN
            IF r.k = "panic" THEN Panic
            ELSE Some([at |-> r.v.at, sv |-> r.v.sv, tat |-> f.it.at + RoundUp(call.fixed, call.ea), n |-> r.v.n, tlen |-> r.v.n * call.es])

\* the default Iterator::nth / count: repeated next().  left = calls still to make (-1: until None); cnt = items seen
RECURSIVE DesignIterMany(_, _, _, _, _, _)
RECURSIVE DesignCollect(_, _, _, _)
NthView(o, kind) == IF o.k = "some" /\ kind # "elf" THEN Some([at |-> o.v.at, sv |-> IF Has(o.v, "sv") THEN o.v.sv ELSE 40]) ELSE o
DesignStep(c0, ds, call) ==
  IF Has(c0, "tile") THEN [o |-> TileExpect(c0.tile, call), ds |-> ds] ELSE      \* design = statement for tiled regions
  LET c == IF ds.img = "info" THEN [c0 EXCEPT !.mem = ds.built]
           ELSE IF ds.img = "header" THEN [c0 EXCEPT !.mem = ds.hbuilt] ELSE c0 IN
  CASE call.op = "use_built" ->
         IF (call.which = "info" /\ ds.built = <<>>) \/ (call.which = "header" /\ ds.hbuilt = <<>>) THEN [o |-> Skipped, ds |-> ds]
         ELSE [o |-> Unit, ds |-> [ds EXCEPT !.img = call.which, !.loaded = "none", !.its = <<>>]]
    [] call.op \in {"ref_from_slice", "ref_from_bytes"} ->
         LET H == HeaderByName(call.h) IN
         [o |-> DesignRefFromSlice(H, Len(c.mem), Al(c), Declared(c, H)), ds |-> ds]
    [] call.op = "bytes_ref" ->
         [o |-> BytesRefSpec(HeaderByName(call.h), Len(c.mem), Al(c)), ds |-> ds]
    [] call.op = "err_texts" ->      \* the design names each error after its variant
         LET m == <<"Null", "WrongAlignment", "ShorterThanHeader", "MissingPadding", "InvalidReportedTotalSize">> IN
         [o |-> [k |-> "texts", mem |-> m, info |-> m \o <<"NoEndTag">>, hdr |-> m \o <<"MagicNotFound", "ChecksumMismatch">>], ds |-> ds]
    [] call.op = "clone_ref" ->
         LET H == HeaderByName(call.h)  r == DesignRefFromSlice(H, Len(c.mem), Al(c), Declared(c, H)) IN
         [o |-> IF r.k # "ok" THEN r
                ELSE LET d == Declared(c, H) IN Ok([bytes |-> PadTo8(SubSeq(c.mem, 1, d)), sv |-> RoundUp8(d), al |-> 0, plen |-> d - H.hsize]),
          ds |-> ds]
    [] call.op = "round8" ->       \* increase_to_alignment: (n + 7) with the low three bits cleared
         LET n == LE4(call.n) IN [o |-> Val(U32Bytes((n + 7) - ((n + 7) % 8)) \o <<0, 0, 0, 0>>), ds |-> ds]
    [] call.op = "load" /\ Has(c, "memx") -> [o |-> LoadSpecX(c.memx), ds |-> ds]
    [] call.op = "hload" /\ Has(c, "memx") -> [o |-> HLoadSpecX(c.memx), ds |-> ds]
    [] call.op = "load" ->
         LET r == DesignLoad(IsNull(call), c.mem) IN
         [o |-> r, ds |-> [ds EXCEPT !.loaded = IF r.k = "ok" THEN "bi" ELSE "none"]]
    [] call.op \in {"tags", "module_tags"} ->
         IF ds.loaded # "bi" THEN [o |-> Skipped, ds |-> ds]
         ELSE [o |-> Unit, ds |-> DsSetIt(ds, call.it, [kind |-> call.op, cur |-> 8, end |-> U32At(c.mem, 0), dead |-> FALSE])]
    [] call.op \in {"efi_areas", "elf_sections", "elf_sections_deprecated"} ->
         IF ds.loaded # "bi" THEN [o |-> Skipped, ds |-> ds]
         ELSE LET kind == IF call.op = "efi_areas" THEN "efi_mmap" ELSE "elf"
                  g == DesignEffGet(c.mem, kind) IN
              CASE g.k = "absent" -> [o |-> None, ds |-> ds]
                [] g.k = "panic" -> [o |-> Panic, ds |-> ds]
                [] OTHER ->
                     LET r == IF kind = "efi_mmap" THEN DesignEfiNew(c.mem, g.it) ELSE DesignElfNew(c.mem, g.it) IN
                     IF r.k = "panic" THEN [o |-> Panic, ds |-> ds]
                     ELSE [o |-> Unit, ds |-> DsSetIt(ds, call.it,
                              IF kind = "efi_mmap" THEN [kind |-> "efi", tag |-> g.it, st |-> [i |-> 0, entries |-> r.v.entries, d |-> r.v.d]]
                              ELSE [kind |-> "elf", tag |-> g.it, p |-> r.v, st |-> [i |-> 0]])]
    [] call.op = "clone" ->
         IF ~DsHasIt(ds, call.it) THEN [o |-> Skipped, ds |-> ds]
         ELSE [o |-> Unit, ds |-> DsSetIt(ds, call.to, ds.its[call.it])]
    [] call.op = "next" ->
         IF ~DsHasIt(ds, call.it) THEN [o |-> Skipped, ds |-> ds]
         ELSE LET s == ds.its[call.it] IN
              CASE s.kind = "efi" ->
                     LET r == DesignEfiNext(c.mem, s.tag, s.st) IN
                     [o |-> r.o, ds |-> DsSetIt(ds, call.it, [s EXCEPT !.st = r.st])]
                [] s.kind = "elf" ->
                     LET r == DesignElfNext(c.mem, s.tag, s.p, s.st) IN
                     [o |-> r.o, ds |-> DsSetIt(ds, call.it, [s EXCEPT !.st = r.st])]
                [] s.kind = "htags" ->
                     LET r == DesignTagNext(c.mem, s.end, s.cur, s.dead) IN
                     [o |-> IF r.o.k # "some" THEN r.o
                            ELSE Some([at |-> r.o.v.at, typ |-> SubSeq(r.o.v.typ, 1, 2), flags |-> SubSeq(r.o.v.typ, 3, 4),
                                       size |-> r.o.v.size, pat |-> r.o.v.pat, plen |-> r.o.v.plen, sv |-> r.o.v.sv]),
                      ds |-> DsSetIt(ds, call.it, [s EXCEPT !.cur = r.cur, !.dead = r.dead])]
                [] OTHER ->
                     LET r == IF s.kind = "tags" THEN DesignTagNext(c.mem, s.end, s.cur, s.dead)
                              ELSE DesignModNext(c.mem, s.end, s.cur, s.dead) IN
                     [o |-> r.o, ds |-> DsSetIt(ds, call.it, [s EXCEPT !.cur = r.cur, !.dead = r.dead])]
    [] call.op = "cast_item" ->
         IF ~DsHasIt(ds, call.it) THEN [o |-> Skipped, ds |-> ds]
         ELSE LET s == ds.its[call.it]  r == DesignTagNext(c.mem, s.end, s.cur, s.dead)
                  nds == DsSetIt(ds, call.it, [s EXCEPT !.cur = r.cur, !.dead = r.dead]) IN
              IF r.o.k # "some" THEN [o |-> r.o, ds |-> nds]
              ELSE LET sz == LE4(r.o.v.size)
                       cst == IF call.to = "generic" THEN DesignCastDst(r.o.v.at, 8, 1, 1, sz)
                              ELSE LET K == InfoKind(call.to) IN
                                   IF K.dst THEN DesignCastDst(r.o.v.at, K.base, K.elem, IF K.elem = 24 THEN 8 ELSE 1, sz)
                                   ELSE DesignCastSized(r.o.v.at, RoundUp8(K.wire), sz) IN
                   [o |-> IF cst.k = "panic" THEN Panic ELSE Some([at |-> cst.v.at, sv |-> cst.v.sv]), ds |-> nds]
    [] call.op \in {"nth", "count", "last"} ->
         IF ~DsHasIt(ds, call.it) THEN [o |-> Skipped, ds |-> ds]
         ELSE LET r == DesignIterMany(c, ds, call.it, IF call.op = "nth" THEN call.n + 1 ELSE -1, 0, None) IN
              IF call.op = "nth" THEN [o |-> NthView(r.o, ds.its[call.it].kind), ds |-> r.ds]
              ELSE IF call.op = "last" THEN [o |-> IF r.o.k = "panic" THEN Panic ELSE NthView(r.prev, ds.its[call.it].kind), ds |-> ds]
              ELSE [o |-> IF r.o.k = "panic" THEN Panic ELSE Val(U64Bytes(r.cnt)), ds |-> ds]
    [] call.op = "for_each" ->       \* the design walks a copy with repeated next(): by construction the rest of the specification's walk
         IF ~DsHasIt(ds, call.it) THEN [o |-> Skipped, ds |-> ds]
         ELSE LET r == DesignIterMany(c, ds, call.it, -1, 0, None)  kind == ds.its[call.it].kind IN
              [o |-> IF r.o.k = "panic" THEN Panic ELSE [k |-> "list", v |-> DesignCollect(c, ds, call.it, <<>>)], ds |-> ds]
    [] call.op \in {"len", "size_hint"} ->
         IF ~DsHasIt(ds, call.it) THEN [o |-> Skipped, ds |-> ds]
         ELSE LET s == ds.its[call.it] IN
              IF s.kind = "efi" THEN
                 LET rem == U64Bytes(s.st.entries - s.st.i) IN
                 [o |-> IF call.op = "len" THEN Val(rem) ELSE [k |-> "hint", lo |-> rem, hi |-> Some(rem)], ds |-> ds]
              ELSE IF call.op = "size_hint" /\ s.kind \in {"tags", "module_tags", "htags"}
                   THEN [o |-> [k |-> "hint", lo |-> U64Bytes(0), hi |-> None], ds |-> ds]      \* the design gives the trivial bound
              ELSE [o |-> Unit, ds |-> ds]
    [] IsInfoRead(call) ->
         [o |-> IF ds.loaded = "bi" THEN DesignInfoRead(c.mem, call) ELSE Skipped, ds |-> ds]
    [] call.op \in {"construct", "b_set", "hb_set"} ->
         IF (call.op = "b_set" /\ ~ds.hasb) \/ (call.op = "hb_set" /\ ~ds.hashb) THEN [o |-> Skipped, ds |-> ds]
         ELSE LET r == DesignCtor(call) IN
              [o |-> r, ds |-> IF r.k # "ok" THEN ds
                               ELSE IF call.op = "b_set" THEN [ds EXCEPT !.bld = Append(ds.bld, [slot |-> call.slot, img |-> Enc(call.slot, call)])]
                               ELSE IF call.op = "hb_set" THEN [ds EXCEPT !.hbld = Append(ds.hbld, [slot |-> call.slot, img |-> Enc(call.slot, call)])]
                               ELSE ds]
    [] call.op = "new_boxed" ->
         LET body == FlatMap(LAMBDA x : x, call.slices)  total == NewBoxedHSize(call) + Len(body)
             v == HeapOutcome(NewBoxedHead(call, total) \o body) IN
         [o |-> Ok(IF Has(call, "clone") /\ call.clone THEN [clone |-> v] @@ v ELSE v), ds |-> ds]
    [] call.op = "b_new" -> [o |-> Unit, ds |-> [ds EXCEPT !.hasb = TRUE, !.bld = <<>>, !.built = <<>>]]
    [] call.op = "hb_new" -> [o |-> Unit, ds |-> [ds EXCEPT !.hashb = TRUE, !.hbld = <<>>, !.hbuilt = <<>>, !.harch = call.arch]]
    [] call.op = "b_build" ->
         IF ~ds.hasb THEN [o |-> Skipped, ds |-> ds]
         ELSE LET v == DesignInfoBuild(ds.bld) IN [o |-> Ok(v), ds |-> [ds EXCEPT !.hasb = FALSE, !.built = v.bytes]]
    [] call.op = "hb_build" ->
         IF ~ds.hashb THEN [o |-> Skipped, ds |-> ds]
         ELSE LET v == DesignHdrBuild(ds.harch, ds.hbld) IN [o |-> Ok(v), ds |-> [ds EXCEPT !.hashb = FALSE, !.hbuilt = v.bytes]]
    [] call.op = "b_load" ->
         [o |-> IF ds.built = <<>> THEN Skipped ELSE Ok([total |-> Len(ds.built), ntags |-> Len(InfoWalk(ds.built).items)]), ds |-> ds]
    [] call.op = "hb_load" ->
         [o |-> IF ds.hbuilt = <<>> THEN Skipped ELSE Ok([length |-> U32Bytes(Len(ds.hbuilt)), ntags |-> Len(HWalk(ds.hbuilt).items)]), ds |-> ds]
    [] call.op = "conv_tag_type" ->
         LET v == TagTypeVariant(call.x)  e == IF call.x = call.y THEN 1 ELSE 0 IN
         [o |-> [k |-> "conv", variant |-> v, via_id |-> v, back |-> call.x, val |-> call.x, id_back |-> call.x, id_new |-> call.x,
                 via_id_back |-> call.x, custom_payload |-> IF v = "Custom" THEN call.x ELSE <<>>, eqs |-> [i \in 1..8 |-> e]], ds |-> ds]
    [] call.op = "conv_mem_area_type" ->
         LET v == MemAreaVariant(call.x)  e == IF call.x = call.y THEN 1 ELSE 0 IN
         [o |-> [k |-> "conv", variant |-> v, back |-> call.x, id_back |-> call.x,
                 custom_payload |-> IF v = "Custom" THEN call.x ELSE <<>>, eqs |-> [i \in 1..4 |-> e]], ds |-> ds]
    [] call.op = "conv_elf_type" ->
         LET r == RowOf(ElfTypeTable, call.x) IN      \* the design classifies by the interval table
         [o |-> IF r.class = "used" THEN [k |-> "conv", class |-> "used", disc |-> r.disc] ELSE [k |-> "conv", class |-> "unused"], ds |-> ds]
    [] call.op = "magic" -> [o |-> [k |-> "conv", info |-> InfoMagic, header |-> HdrMagic, htag_count |-> W(11)], ds |-> ds]
    [] call.op = "hload" ->
         LET r == DesignHLoad(IsNull(call), c.mem) IN
         [o |-> r, ds |-> [ds EXCEPT !.loaded = IF r.k = "ok" THEN "hdr" ELSE "none"]]
    [] call.op = "htags" ->
         IF ds.loaded # "hdr" THEN [o |-> Skipped, ds |-> ds]
         ELSE [o |-> Unit, ds |-> DsSetIt(ds, call.it, [kind |-> "htags", cur |-> 16, end |-> U32At(c.mem, 8), dead |-> FALSE])]
    [] call.op = "hacc" ->
         [o |-> IF ds.loaded # "hdr" THEN Skipped
                ELSE CASE call.f = "header_magic" -> Val(Bytes(c.mem, 0, 4))
                       [] call.f = "arch" -> Val(Bytes(c.mem, 4, 4))
                       [] call.f = "length" -> Val(Bytes(c.mem, 8, 4))
                       [] call.f = "checksum" -> Val(Bytes(c.mem, 12, 4))
                       [] OTHER -> BoolVal(TRUE), ds |-> ds]
    [] IsHdrRead(call) ->
         [o |-> IF ds.loaded # "hdr" THEN Skipped ELSE DesignHdrRead(c.mem, call), ds |-> ds]
    [] call.op = "hview" -> [o |-> IF ds.loaded # "hdr" THEN Skipped ELSE DesignHView(c.mem, call), ds |-> ds]
    [] call.op = "hdbg" -> [o |-> IF ds.loaded = "none" THEN Skipped ELSE Unit, ds |-> ds]
    [] call.op = "basic" ->       \* verify_checksum recomputes the checksum and compares
         [o |-> IF call.f = "verify_checksum"
                THEN BoolVal(ChecksumBytes(Bytes(c.mem, 0, 4), Bytes(c.mem, 4, 4), Bytes(c.mem, 8, 4)) = Bytes(c.mem, 12, 4))
                ELSE BasicSpec(c.mem, call.f), ds |-> ds]
    [] call.op = "find_header" ->
         [o |-> IF Al(c) # 0 THEN [k |-> "err"]
                ELSE IF Has(c, "memx") THEN HdrFindSpecX(c.memx, 8192)     \* design = statement here; MC_FindSmall relates
                ELSE DesignHdrFind(c.mem, 8192), ds |-> ds]                \* the window scan to the statement
    [] call.op = "calc_checksum" ->
         LET v == ChecksumBytes(call.magic, U32Bytes(call.arch), call.length) IN
         [o |-> [k |-> "val", v |-> v, twin |-> v], ds |-> ds]
    [] call.op = "custom_get" -> [o |-> IF ds.loaded # "bi" THEN Skipped ELSE DesignCustomGet(c, call), ds |-> ds]
    [] call.op = "elf_cmp" ->
         [o |-> IF ds.loaded # "bi" THEN Skipped
                ELSE IF ~ElfAllOk(c.mem) THEN Panic
                ELSE LET n == ElfAllCount(c.mem) IN [k |-> "cmp", n |-> n, eq |-> n, consistent |-> 1], ds |-> ds]
    [] call.op = "slice_cast" ->
         LET d == Declared(c, HTAG)  r == DesignRefFromSlice(HTAG, Len(c.mem), Al(c), d) IN
         [o |-> IF r.k # "ok" THEN r
                ELSE LET cst == DesignCastSized(0, RoundUp(8 + 4 * call.words, call.sa), d) IN
                     IF cst.k = "panic" THEN Panic
                     ELSE Some([at |-> 0, sv |-> cst.v.sv, fat |-> 8, first |-> Bytes(c.mem, 8, Min(4, 4 * call.words))]),
          ds |-> ds]
    [] call.op = "dbg" ->      \* Debug formatting: only the outcome class is specified (C01: controlled)
         [o |-> IF ds.loaded = "none" THEN Skipped ELSE Unit, ds |-> ds]
    [] OTHER -> [o |-> [k |-> "unsupported"], ds |-> ds]

DesignIterMany(c, ds, it, left, cnt, prev) ==
  LET r == DesignStep(c, ds, [op |-> "next", it |-> it, names |-> FALSE]) IN
  IF r.o.k # "some" THEN [o |-> r.o, ds |-> r.ds, cnt |-> cnt, prev |-> prev]
  ELSE IF left = 1 THEN [o |-> r.o, ds |-> r.ds, cnt |-> cnt + 1, prev |-> r.o]
  ELSE DesignIterMany(c, r.ds, it, IF left < 0 THEN left ELSE left - 1, cnt + 1, r.o)
\* the offsets of what repeated next() still yields
DesignCollect(c, ds, it, acc) ==
  LET r == DesignStep(c, ds, [op |-> "next", it |-> it, names |-> FALSE]) IN
  IF r.o.k # "some" THEN acc ELSE DesignCollect(c, r.ds, it, Append(acc, r.o.v.at))

\* ---- dispatch -------------------------------------------------------------------------
\* the image under test: after use_built, the bytes the builder produced (as observed)
CEff(c, trk) ==
  IF trk.img = "info" THEN [c EXCEPT !.mem = trk.built]
  ELSE IF trk.img = "header" THEN [c EXCEPT !.mem = trk.hbuilt] ELSE c
\* tiled regions (MB2Info): the outcome of every call of the plan follows from the tile parameters
TileAcceptP(p, c, call, o) ==
  CASE p = "C01" -> Controlled(o)
    [] p = "C02" -> call.op = "load" => o = TileExpect(c.tile, call)
    [] p = "C03" -> c.tile.v = "info" /\ call.op # "load" => o = TileExpect(c.tile, call)
    [] p = "C19" -> c.tile.v = "elf" /\ call.op # "load" => o = TileExpect(c.tile, call)
    [] OTHER -> TRUE
AcceptP(p, c0, trk, call, o) ==
  IF Has(c0, "tile") THEN TileAcceptP(p, c0, call, o) ELSE
  LET c == CEff(c0, trk) IN
  CASE p = "C01" -> C01_Accept(c, trk, call, o)
    [] p = "C02" -> C02_Accept(c, trk, call, o)
    [] p = "C03" -> C03_Accept(c, trk, call, o) /\ C03_InfoRead(c, trk, call, o)
    [] p = "C04" -> C04_Accept(c, trk, call, o)
    [] p = "C05" -> C05_Accept(c, trk, call, o) /\ C05_HAccept(c, trk, call, o) /\ C05_IterAccept(c, trk, call, o)
    [] p = "C06" -> C06_Accept(c, trk, call, o)
    [] p = "C07" -> C07_Accept(c, trk, call, o)
    [] p = "C12" -> C12_Accept(c, trk, call, o)
    [] p = "C16" -> C16_Accept(c, trk, call, o)
    [] p = "C20" -> C20_Accept(c, trk, call, o)
    [] p = "C09" -> C09_Accept(c, trk, call, o)
    [] p = "C10" -> C10_Accept(c, trk, call, o)
    [] p = "C11" -> C11_Accept(c, trk, call, o)
    [] p = "C13" -> C13_Accept(c, trk, call, o)
    [] p = "C15" -> C15_Accept(c, trk, call, o)
    [] p = "C17" -> C17_Accept(c, trk, call, o) /\ C17_Build(c, trk, call, o)
    [] p = "C14" -> C14_Accept(c, trk, call, o)
    [] p = "C18" -> C18_Accept(c, trk, call, o)
    [] p = "C19" -> C19_Accept(c, trk, call, o)
    [] OTHER -> TRUE

Violated(c, trk, call, o) == {p \in Props : ~AcceptP(p, c, trk, call, o)}
Accept(c, trk, call, o) == Violated(c, trk, call, o) = {}
=============================================================================
