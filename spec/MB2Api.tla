-------------------------------- MODULE MB2Api --------------------------------
(***************************************************************************)
(* The API session machine: the abstract state an API user can hold        *)
(* (loaded object, iterator cursors, builder slots, heap objects), one     *)
(* action per public call at its return, and per property C01..C20 the     *)
(* declarative acceptance predicate for a (case, tracked state, call,      *)
(* outcome) quadruple.                                                     *)
(*                                                                         *)
(*   c    : the case  [mem, al, calls, desc, ...]                          *)
(*   trk  : tracked session state (advanced from OBSERVED outcomes)        *)
(*   call : [op |-> ..., args]                                             *)
(*   o    : outcome                                                        *)
(***************************************************************************)
EXTENDS MB2Info, TLC

Props == {"C01", "C02", "C03", "C04", "C05", "C06", "C07", "C08", "C09", "C10",
          "C11", "C12", "C13", "C14", "C15", "C16", "C17", "C18", "C19", "C20"}

Al(c) == IF Has(c, "al") THEN c.al ELSE 0

\* ---- tracked state -------------------------------------------------------------
\* loaded : "none" | "bi" | "hdr"
\* its    : iterator id |-> [kind, k (items yielded so far), dead]
TrkInit == [loaded |-> "none", its |-> <<>>]
HasIt(trk, id) == id \in DOMAIN trk.its
ItOf(trk, id) == trk.its[id]
SetIt(trk, id, v) == [trk EXCEPT !.its = (id :> v) @@ trk.its]

Advance(c, trk, call, o) ==
  CASE call.op = "load" -> [trk EXCEPT !.loaded = IF o.k = "ok" THEN "bi" ELSE "none"]
    [] call.op \in {"tags", "module_tags"} ->
         IF o.k = "unit" THEN SetIt(trk, call.it, [kind |-> call.op, k |-> 0, cp |-> FALSE, dead |-> FALSE]) ELSE trk
    [] call.op = "clone" ->
         IF o.k = "unit" /\ HasIt(trk, call.it) THEN SetIt(trk, call.to, ItOf(trk, call.it)) ELSE trk
    [] call.op = "next" ->
         IF ~HasIt(trk, call.it) THEN trk
         ELSE LET s == ItOf(trk, call.it)
                  \* a module iterator's panic on an undersized module tag consumes that tag
                  castPanic == /\ s.kind = "module_tags" /\ o.k = "panic" /\ ~s.dead
                               /\ LET ms == ModItems(InfoWalk(c.mem)) IN
                                  s.k < Len(ms) /\ ms[s.k + 1].size < ModuleBase IN
              SetIt(trk, call.it, [s EXCEPT !.k = IF o.k = "some" \/ castPanic THEN s.k + 1 ELSE s.k,
                                            !.cp = s.cp \/ castPanic,
                                            !.dead = s.dead \/ (o.k \in {"panic", "crash", "hang"} /\ ~castPanic)])
    [] OTHER -> trk

\* ---- C14 ---------------------------------------------------------------------------
Declared(c, H) == IF Len(c.mem) >= H.sizeOff + 4 THEN U32At(c.mem, H.sizeOff) ELSE 0
C14_Accept(c, trk, call, o) ==
  CASE call.op = "ref_from_slice" ->
         LET H == HeaderByName(call.h) IN AcceptRefFromSlice(H, Len(c.mem), Al(c), Declared(c, H), o)
    [] call.op = "bytes_ref" ->
         AcceptBytesRef(HeaderByName(call.h), Len(c.mem), Al(c), o)
    [] OTHER -> TRUE

\* ---- C02 ---------------------------------------------------------------------------
IsNull(call) == Has(call, "null") /\ call.null
C02_Accept(c, trk, call, o) ==
  CASE call.op = "load" -> AcceptLoad(IsNull(call), c.mem, o)
    [] OTHER -> TRUE

\* ---- C03 ---------------------------------------------------------------------------
\* receiver missing (constructor never returned): only "skipped" is acceptable
C03_Accept(c, trk, call, o) ==
  CASE call.op = "tags" -> IF trk.loaded = "bi" THEN o.k = "unit" ELSE o.k = "skipped"
    [] call.op = "module_tags" -> IF trk.loaded = "bi" THEN o.k = "unit" ELSE o.k = "skipped"
    [] call.op = "clone" -> IF HasIt(trk, call.it) THEN o.k = "unit" ELSE o.k = "skipped"
    [] call.op = "next" ->
         IF ~HasIt(trk, call.it) THEN o.k = "skipped"
         ELSE LET s == ItOf(trk, call.it)  w == InfoWalk(c.mem) IN
              CASE s.kind = "tags" -> AcceptTagNext(w, s.k, s.dead, o)
                [] s.kind = "module_tags" -> AcceptTagNextMod(w, s.k, s.cp, s.dead, o)
                [] OTHER -> TRUE
    [] OTHER -> TRUE

\* ---- reference design of the session (constructive; drives the MC_* models) -----------
\* ds: loaded, its: id |-> [kind, cur, end, dead]
DsInit == [loaded |-> "none", its |-> <<>>]
DsHasIt(ds, id) == id \in DOMAIN ds.its
DsSetIt(ds, id, v) == [ds EXCEPT !.its = (id :> v) @@ ds.its]

RECURSIVE DesignModNext(_, _, _, _)
\* ModuleIter::next = find() over the tag iterator
DesignModNext(mem, end, cur, dead) ==
  LET r == DesignTagNext(mem, end, cur, dead) IN
  IF r.o.k # "some" THEN r
  ELSE IF r.o.v.typ = ModuleTyp
       THEN IF r.o.v.plen < ModuleBase - 8 THEN [o |-> Panic, cur |-> r.cur, dead |-> FALSE]  \* dst_len assertion in cast; cursor already advanced
            ELSE [o |-> Some([at |-> r.o.v.at, size |-> r.o.v.size, sv |-> r.o.v.sv]), cur |-> r.cur, dead |-> r.dead]
       ELSE DesignModNext(mem, end, r.cur, r.dead)

DesignStep(c, ds, call) ==
  CASE call.op = "ref_from_slice" ->
         LET H == HeaderByName(call.h) IN
         [o |-> DesignRefFromSlice(H, Len(c.mem), Al(c), Declared(c, H)), ds |-> ds]
    [] call.op = "bytes_ref" ->
         [o |-> BytesRefSpec(HeaderByName(call.h), Len(c.mem), Al(c)), ds |-> ds]
    [] call.op = "load" ->
         LET r == DesignLoad(IsNull(call), c.mem) IN
         [o |-> r, ds |-> [ds EXCEPT !.loaded = IF r.k = "ok" THEN "bi" ELSE "none"]]
    [] call.op \in {"tags", "module_tags"} ->
         IF ds.loaded # "bi" THEN [o |-> Skipped, ds |-> ds]
         ELSE [o |-> Unit, ds |-> DsSetIt(ds, call.it, [kind |-> call.op, cur |-> 8, end |-> U32At(c.mem, 0), dead |-> FALSE])]
    [] call.op = "clone" ->
         IF ~DsHasIt(ds, call.it) THEN [o |-> Skipped, ds |-> ds]
         ELSE [o |-> Unit, ds |-> DsSetIt(ds, call.to, ds.its[call.it])]
    [] call.op = "next" ->
         IF ~DsHasIt(ds, call.it) THEN [o |-> Skipped, ds |-> ds]
         ELSE LET s == ds.its[call.it]
                  r == IF s.kind = "tags" THEN DesignTagNext(c.mem, s.end, s.cur, s.dead)
                       ELSE DesignModNext(c.mem, s.end, s.cur, s.dead) IN
              [o |-> r.o, ds |-> DsSetIt(ds, call.it, [s EXCEPT !.cur = r.cur, !.dead = r.dead])]
    [] OTHER -> [o |-> [k |-> "unsupported"], ds |-> ds]

\* ---- dispatch -------------------------------------------------------------------------
AcceptP(p, c, trk, call, o) ==
  CASE p = "C02" -> C02_Accept(c, trk, call, o)
    [] p = "C03" -> C03_Accept(c, trk, call, o)
    [] p = "C14" -> C14_Accept(c, trk, call, o)
    [] OTHER -> TRUE

Violated(c, trk, call, o) == {p \in Props : ~AcceptP(p, c, trk, call, o)}
Accept(c, trk, call, o) == Violated(c, trk, call, o) = {}
=============================================================================
