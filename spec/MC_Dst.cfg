SPECIFICATION MCSpec
CONSTANT Params <- DstParams
CONSTANT MkCase <- DstCase
CONSTANT DstExtra = 9
INVARIANT DesignAccepted
INVARIANT DesignControlled
INVARIANT Export
PROPERTY Terminates
CHECK_DEADLOCK FALSE
