------------------------------ MODULE MC_XCast ------------------------------
(* C15: any tag viewed as any tag type - every built-in kind (at its conformant size and at a few other sizes)
   cast to every built-in kind and to the generic structure. *)
EXTENDS MCInfoLib
Targets == InfoKindNames \cup {"generic"}
XCastParams == { [src |-> s, to |-> t, size |-> z] : s \in InfoKindNames \ {"end"}, t \in Targets, z \in {0, 8, 13, 16, 24, 32, 44, 48} }
XTag(p) ==
  IF p.size = 0 THEN ConformantTag(p.src, 0)
  ELSE [i \in 1..RoundUp8(p.size) |-> IF i <= 4 THEN U32Bytes(InfoKind(p.src).id)[i] ELSE IF i <= 8 THEN U32Bytes(p.size)[i - 4]
                                      ELSE IF i <= p.size THEN FillA(i - 1) ELSE PadByte]
XCastCase(p) ==
  [mem |-> InfoImage(<<Neighbour, XTag(p)>>), al |-> 0,
   calls |-> <<[op |-> "load"], [op |-> "tags", it |-> 0], [op |-> "cast_item", it |-> 0, to |-> "generic"],
               [op |-> "cast_item", it |-> 0, to |-> p.to], [op |-> "cast_item", it |-> 0, to |-> "end"],
               [op |-> "cast_item", it |-> 0, to |-> p.to], [op |-> "next", it |-> 0]>>,
   desc |-> [area |-> "xcast"] @@ p]
=============================================================================
