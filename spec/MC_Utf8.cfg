SPECIFICATION MCSpec
CONSTANT Params <- Utf8Params
CONSTANT MkCase <- Utf8Case
CONSTANT MaxLen = 3
INVARIANT DesignAccepted
INVARIANT DesignControlled
INVARIANT Export
PROPERTY Terminates
CHECK_DEADLOCK FALSE
