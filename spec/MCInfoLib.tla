------------------------------- MODULE MCInfoLib -------------------------------
(***************************************************************************)
(* Boot-information corpora built from the kind tables of MB2Info:         *)
(*   Fields  (C04)  every kind at its conformant size, two marker fills,   *)
(*                  every accessor                                         *)
(*   Getters (C04)  all sequences of up to MaxTags tags over a few kinds   *)
(*                  incl. duplicates, EFI-BS before / after / absent       *)
(*   Dst     (C05)  every variable-length kind at every declared size      *)
(*   Fb      (C04)  all 256 framebuffer type bytes, palette lengths        *)
(***************************************************************************)
EXTENDS MCBase


PadByte == 238          \* 0xEE in alignment padding
NbrByte == 221          \* 0xDD payload of the neighbouring tag
FillA(i) == (i * 7 + 13) % 251
FillB(i) == (i * 11 + 5) % 256
\* v = 0, 1: two marker fills (ascending with the position); v = 2: all zeros; v = 3: all ones
\* v = 4: descending with the position (of two adjacent fields the later one holds the smaller value)
Fill(v, i) == CASE v = 0 -> FillA(i) [] v = 1 -> FillB(i) [] v = 2 -> 0 [] v = 4 -> 250 - (i % 250) [] OTHER -> 255

Override(b, off, x) == [i \in 1..Len(b) |-> IF i > off /\ i <= off + Len(x) THEN x[i - off] ELSE b[i]]

\* a tag of `size` bytes: type, size, then marker bytes (tag-relative positions)
RawTag(id, size, v) ==
  LET n == Max(size, 8) IN
  [i \in 1..n |-> IF i <= 4 THEN U32Bytes(id)[i] ELSE IF i <= 8 THEN U32Bytes(size)[i - 4] ELSE Fill(v, i - 1)]

Neighbour == U32Bytes(99) \o U32Bytes(16) \o [i \in 1..8 |-> NbrByte]
Pad8(b) == b \o [i \in 1..(RoundUp8(Len(b)) - Len(b)) |-> PadByte]
RECURSIVE Concat(_)
Concat(ss) == IF ss = <<>> THEN <<>> ELSE ss[1] \o Concat(Tail(ss))
\* region = header, padded tags, end tag
InfoImage(tags) ==
  LET body == Concat([i \in 1..Len(tags) |-> Pad8(tags[i])])
      T == 8 + Len(body) + 8 IN
  U32Bytes(T) \o <<0, 0, 0, 0>> \o body \o EndTagBytes

\* ---- conformant tag of each kind (enumerated / constrained bytes hold defined values) ------
ConformantSize(name) ==
  LET K == InfoKind(name) IN
  IF ~K.dst THEN K.wire
  ELSE CASE name = "mmap" -> 16 + 2 * 24
         [] name = "framebuffer" -> 32 + 6
         [] name = "efi_mmap" -> 16 + 2 * 40
         [] name = "elf" -> 20
         [] OTHER -> K.base + 11
ConformantTag(name, v) ==
  LET K == InfoKind(name)  t == RawTag(K.id, ConformantSize(name), v) IN
  CASE name = "mmap" -> Override(t, 8, U32Bytes(24))
    [] name = "framebuffer" -> Override(t, 29, <<1>>)
    [] name = "vbe" -> Override(t, 528 + 27, <<t[528 + 27 + 1] % 8>>)
    [] name = "efi_mmap" -> Override(Override(t, 8, U32Bytes(40)), 12, U32Bytes(1))
    [] name = "elf" -> Override(Override(Override(t, 8, U32Bytes(0)), 12, U32Bytes(40)), 16, U32Bytes(0))
    [] name = "rsdpv2" -> Override(t, 28, U32Bytes(36))
    [] name \in {"cmdline", "bootloader", "module"} ->
         \* text "ab\0" directly after the fixed part, markers (non-zero) before it would be invalid UTF-8 at random
         Override([i \in 1..Len(t) |-> IF i > K.base THEN 97 + (i % 3) ELSE t[i]], Len(t) - 1, <<0>>)
    [] OTHER -> t

SpecialFields(name) ==
  CASE name = "module" -> <<"module_size">>
    [] name = "mmap" -> <<"memory_areas">>
    [] name = "smbios" -> <<"tables">>
    [] name = "network" -> <<"payload">>
    [] name = "framebuffer" -> <<"buffer_type">>
    [] name = "rsdpv1" -> <<"signature", "oem_id", "checksum_is_valid">>
    [] name = "rsdpv2" -> <<"signature", "oem_id", "checksum_is_valid">>
    [] OTHER -> <<>>
AllFields(name) == [i \in 1..Len(FieldsOf(InfoKind(name))) |-> FieldsOf(InfoKind(name))[i].n] \o SpecialFields(name)
                   \o <<"as_bytes", "trait_payload", "as_ptr">>
FieldCalls(name) == [i \in 1..Len(AllFields(name)) |-> [op |-> "field", kind |-> name, f |-> AllFields(name)[i]]]
StrCalls(name) == IF name \in {"cmdline", "bootloader", "module"} THEN <<[op |-> "str", kind |-> name]>> ELSE <<>>
AreaCalls(name) ==
  IF name # "mmap" THEN <<>>
  ELSE Concat([i \in 1..3 |-> [j \in 1..5 |-> [op |-> "area", i |-> i - 1,
                                             f |-> <<"at", "start_address", "size", "typ", "end_address">>[j]]]])
ReadCalls(name) == <<[op |-> "get", kind |-> name]>> \o FieldCalls(name) \o StrCalls(name) \o AreaCalls(name)
                   \o <<[op |-> "dbg", what |-> name]>>

\* ---- table sanity (evaluated once by TLC) -------------------------------------------------------------
ASSUME \A n \in InfoKindNames : FieldsWellFormed(InfoKind(n))
ASSUME \A n, m \in InfoKindNames : n # m => InfoKind(n).id # InfoKind(m).id
ASSUME {InfoKind(n).id : n \in InfoKindNames} = 0..21
\* wire sizes of the Multiboot2 specification (3.6.x)
ASSUME /\ InfoKind("meminfo").wire = 16 /\ InfoKind("bootdev").wire = 20 /\ InfoKind("apm").wire = 28
       /\ InfoKind("vbe").wire = 784 /\ InfoKind("efi32").wire = 12 /\ InfoKind("efi64").wire = 16
       /\ InfoKind("rsdpv1").wire = 8 + 20 /\ InfoKind("rsdpv2").wire = 8 + 36
       /\ InfoKind("efi32_ih").wire = 12 /\ InfoKind("efi64_ih").wire = 16 /\ InfoKind("load_base_addr").wire = 12
       /\ InfoKind("efi_bs").wire = 8 /\ InfoKind("end").wire = 8
       /\ VbeMode - VbeCtrl = 512 /\ InfoKind("vbe").wire - VbeMode = 256
=============================================================================
