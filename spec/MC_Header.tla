------------------------------ MODULE MC_Header ------------------------------
(***************************************************************************)
(* Header-crate corpora: HLoad (C10), HWalk (C09/C11), HFields (C11),      *)
(* HGetters (C11), HDst (C05), Find (C13), Cks (C10 checksum samples).     *)
(***************************************************************************)
EXTENDS MCBase

CONSTANTS MaxLen, MaxL, MaxTags, FindLens, FindPos

PadByte == 238
FillA(i) == (i * 7 + 13) % 251
FillB(i) == (i * 11 + 5) % 256
\* v = 0, 1: two marker fills (ascending with the position); v = 2: all zeros; v = 3: all ones
\* v = 4: descending with the position (of two adjacent fields the later one holds the smaller value)
Fill(v, i) == CASE v = 0 -> FillA(i) [] v = 1 -> FillB(i) [] v = 2 -> 0 [] v = 4 -> 250 - (i % 250) [] OTHER -> 255
Override(b, off, x) == [i \in 1..Len(b) |-> IF i > off /\ i <= off + Len(x) THEN x[i - off] ELSE b[i]]
RECURSIVE Concat(_)
Concat(ss) == IF ss = <<>> THEN <<>> ELSE ss[1] \o Concat(Tail(ss))
Pad8(b) == b \o [i \in 1..(RoundUp8(Len(b)) - Len(b)) |-> PadByte]

BasicHeader(magic, arch, len) ==
  magic \o U32Bytes(arch) \o U32Bytes(len) \o ChecksumBytes(magic, U32Bytes(arch), U32Bytes(len))
\* a valid header followed by padded tags
HdrImage(arch, tags) ==
  LET body == Concat([i \in 1..Len(tags) |-> Pad8(tags[i])]) IN
  BasicHeader(HdrMagic, arch, 16 + Len(body)) \o body
\* header tag: u16 type, u16 flags, u32 size, then marker bytes
HTag(id, flags, size, v) ==
  LET n == Max(size, 8) IN
  [i \in 1..n |-> IF i <= 2 THEN U16Bytes(id)[i] ELSE IF i <= 4 THEN U16Bytes(flags)[i - 2]
                  ELSE IF i <= 8 THEN U32Bytes(size)[i - 4] ELSE Fill(v, i - 1)]
HConformantSize(name) == IF name = "info_req" THEN 8 + 3 * 4 ELSE HeaderKind(name).wire
HConformantTag(name, v) ==
  LET t == HTag(HeaderKind(name).id, v % 2, HConformantSize(name), v) IN
  CASE name = "console" -> Override(t, 8, U32Bytes(t[9] % 2))           \* enumerated fields hold defined values
    [] name = "relocatable" -> Override(t, 20, U32Bytes(t[21] % 3))
    [] OTHER -> t
HAllFields(name) ==
  [i \in 1..Len(HFieldsOf(HeaderKind(name))) |-> HFieldsOf(HeaderKind(name))[i].n]
  \o (IF name = "info_req" THEN <<"requests">> ELSE <<>>)
HReadCalls(name) ==
  <<[op |-> "hget", kind |-> name]>>
  \o [i \in 1..Len(HAllFields(name)) |-> [op |-> "hfield", kind |-> name, f |-> HAllFields(name)[i]]]
  \o <<[op |-> "hdbg", what |-> name]>>
AccCalls == [i \in 1..5 |-> [op |-> "hacc", f |-> <<"header_magic", "arch", "length", "checksum", "verify_checksum">>[i]]]
GettableKinds == HeaderKindNames \ {"hend"}

\* ---- HLoad ---------------------------------------------------------------------------------------
Marker(i) == (i * 5 + 1) % 251
\* "swap": the magic in the other byte order (a big-endian image is not a Multiboot2 header)
MagicVariant(m) == CASE m = "ok" -> HdrMagic [] m = "bit" -> <<215, 80, 82, 232>> [] m = "swap" -> <<232, 82, 80, 214>> [] OTHER -> <<0, 0, 0, 0>>
HLoadParams == { [len |-> l, m |-> m, ck |-> ck, arch |-> a, null |-> FALSE]
                 : l \in 0..MaxLen, m \in {"ok", "bit", "zero", "swap"}, ck \in {"ok", "plus", "minus", "zero", "min"}, a \in {0, 4} }
               \cup { [len |-> 16, m |-> "ok", ck |-> "ok", arch |-> 0, null |-> TRUE] }
HLoadImage(p) ==
  LET magic == MagicVariant(p.m)
      good == ChecksumLimb(Limb(magic), Limb(U32Bytes(p.arch)), Limb(U32Bytes(p.len)))
      ck == CASE p.ck = "ok" -> good
              [] p.ck = "plus" -> LimbAdd(good, [lo |-> 1, hi |-> 0])
              [] p.ck = "minus" -> LimbAdd(good, [lo |-> 65535, hi |-> 65535])
              [] p.ck = "min" -> [lo |-> 0, hi |-> 32768]                      \* 0x8000_0000: the word whose negation overflows
              [] OTHER -> LimbZero
      hdr == magic \o U32Bytes(p.arch) \o U32Bytes(p.len) \o LimbBytes(ck)
      n == Max(16, p.len) IN
  [i \in 1..n |-> IF i <= 16 THEN hdr[i] ELSE Marker(i)]
HLoadCase(p) ==
  [mem |-> HLoadImage(p), al |-> 0,
   calls |-> <<[op |-> "hload", null |-> p.null]>> \o AccCalls \o <<[op |-> "hdbg", what |-> "hdr"]>>,
   desc |-> [area |-> "hload"] @@ p]

\* ---- HWalk: lazily chosen header-tag sequences --------------------------------------------------------
WTypes == {<<0, 0>>, <<1, 0>>, <<3, 1>>, <<6, 0>>}     \* (type, flags) pairs: end, information request, entry, module align
RECURSIVE HWalkSeqs(_, _)
HWalkSeqs(off, L) ==
  IF off >= L THEN {<<>>}
  ELSE UNION { IF s >= 8 /\ off + RoundUp8(s) <= L
               THEN { <<[tf |-> tf, size |-> s]>> \o r : r \in HWalkSeqs(off + RoundUp8(s), L) }
               ELSE { <<[tf |-> tf, size |-> s]>> }
               : tf \in WTypes, s \in 0..(L - off + 9) }
\* look: payload bytes are markers, or end-tag look-alikes (every 8-byte chunk reads type 0, flags 0, size 8)
HWalkParams == UNION { { [L |-> L, hs |-> hs, look |-> lk] : hs \in HWalkSeqs(16, L), lk \in BOOLEAN } : L \in {x \in 16..MaxL : x % 8 = 0} }
RECURSIVE HPlace(_, _, _)
HPlace(mem, off, hs) ==
  IF hs = <<>> THEN mem
  ELSE LET h == hs[1]  hb == U16Bytes(h.tf[1]) \o U16Bytes(h.tf[2]) \o U32Bytes(h.size) IN
       HPlace([i \in 1..Len(mem) |-> IF i > off /\ i <= off + 8 THEN hb[i - off] ELSE mem[i]],
              off + RoundUp8(h.size), Tail(hs))
HWalkImage(p) ==
  LET base == [i \in 1..p.L |-> IF p.look THEN <<0, 0, 0, 0, 8, 0, 0, 0>>[((i - 1) % 8) + 1] ELSE (i * 3 + 7) % 250]
      withH == HPlace(base, 16, p.hs)
      hdr == BasicHeader(HdrMagic, 0, p.L) IN
  [i \in 1..p.L |-> IF i <= 16 THEN hdr[i] ELSE withH[i]]
Rep(call, n) == [i \in 1..n |-> call]
HWalkCase(p) ==
  LET n == Len(p.hs) + 2 IN
  [mem |-> HWalkImage(p), al |-> 0,
   calls |-> <<[op |-> "hload"], [op |-> "htags", it |-> 0], [op |-> "next", it |-> 0], [op |-> "size_hint", it |-> 0], [op |-> "for_each", it |-> 0],
               [op |-> "clone", it |-> 0, to |-> 1]>>
             \o <<[op |-> "last", it |-> 0], [op |-> "count", it |-> 0], [op |-> "clone", it |-> 0, to |-> 3], [op |-> "nth", it |-> 3, n |-> 1],
                  [op |-> "nth", it |-> 3, n |-> 2], [op |-> "next", it |-> 3],
                  [op |-> "htags", it |-> 4], [op |-> "nth", it |-> 4, n |-> 7], [op |-> "next", it |-> 4], [op |-> "count", it |-> 4]>>
             \o Rep([op |-> "next", it |-> 0], n) \o <<[op |-> "size_hint", it |-> 0]>> \o Rep([op |-> "next", it |-> 1], n)
             \o <<[op |-> "hget", kind |-> "info_req"], [op |-> "hfield", kind |-> "info_req", f |-> "requests"],
                  [op |-> "hget", kind |-> "entry"], [op |-> "hget", kind |-> "module_align"],
                  [op |-> "hget", kind |-> "address"], [op |-> "hdbg", what |-> "hdr"], [op |-> "hdbg", what |-> "info_req"],
                  [op |-> "htags", it |-> 5], [op |-> "next", it |-> 5], [op |-> "hload"], [op |-> "next", it |-> 5],
                  [op |-> "clone", it |-> 5, to |-> 6], [op |-> "clone", it |-> 6, to |-> 7], [op |-> "next", it |-> 7],
                  [op |-> "htags", it |-> 8], [op |-> "next", it |-> 8]>>,
   desc |-> [area |-> "hwalk", L |-> p.L, hs |-> p.hs, look |-> p.look]]

\* ---- HFields ----------------------------------------------------------------------------------------------
Nbr == HTag(6, 1, 8, 0)
HFieldsParams == { [kind |-> n, v |-> v, pos |-> pos, arch |-> a] : n \in GettableKinds, v \in {0, 1, 2, 3, 4}, pos \in {0, 1}, a \in {0, 4} }
\* positional views: the tag at walk position i seen through every sized kind's struct (all accessors where the padded
\* sizes agree - the cast's condition -, typ() alone where they do not: a controlled panic), the end tag behind it seen
\* as the two 8-byte kinds and as an entry tag, and a position behind the walk
SizedKindSeq == <<"address", "entry", "console", "hfb", "module_align", "hefi_bs", "entry_efi32", "entry_efi64", "relocatable">>
HViewCalls(kind, i) ==
  Concat([k \in 1..Len(SizedKindSeq) |->
            LET V == SizedKindSeq[k] IN
            IF RoundUp8(HeaderKind(V).wire) = RoundUp8(HConformantSize(kind))
            THEN [j \in 1..Len(HAllFields(V)) |-> [op |-> "hview", view |-> V, i |-> i, f |-> HAllFields(V)[j]]]
            ELSE <<[op |-> "hview", view |-> V, i |-> i, f |-> "typ"]>>])
  \o <<[op |-> "hview", view |-> "module_align", i |-> i + 1, f |-> "typ"], [op |-> "hview", view |-> "hefi_bs", i |-> i + 1, f |-> "flags"],
       [op |-> "hview", view |-> "hefi_bs", i |-> i + 1, f |-> "size"], [op |-> "hview", view |-> "entry", i |-> i + 1, f |-> "typ"],
       [op |-> "hview", view |-> "entry", i |-> i + 2, f |-> "typ"]>>
HFieldsCase(p) ==
  [mem |-> HdrImage(p.arch, IF p.pos = 0 THEN <<HConformantTag(p.kind, p.v), HTag(0, 0, 8, 0)>>
                            ELSE <<HTag(7, 1, 8, 0), HConformantTag(p.kind, p.v), HTag(0, 0, 8, 0)>>),
   al |-> 0,
   calls |-> <<[op |-> "hload"]>> \o AccCalls \o HReadCalls(p.kind) \o <<[op |-> "hdbg", what |-> "hdr"]>> \o HViewCalls(p.kind, p.pos),
   desc |-> [area |-> "hfields"] @@ p]

\* ---- HGetters: multiplicity and order --------------------------------------------------------------------------
\* "hend": a type-0 tag in the middle does not end the walk - only the declared length does
HGKinds == {"entry", "module_align", "info_req", "relocatable", "hend"}
RECURSIVE SeqsUpTo(_, _)
SeqsUpTo(S, n) == IF n = 0 THEN {<<>>} ELSE {<<>>} \cup { <<x>> \o r : x \in S, r \in SeqsUpTo(S, n - 1) }
HLongSeq(n, lastKind) == [i \in 1..n |-> IF i % 2 = 0 THEN "module_align" ELSE "entry"] \o <<lastKind>>
HGettersParams == { [ks |-> ks] : ks \in SeqsUpTo(HGKinds, MaxTags) }
                  \cup { [ks |-> HLongSeq(n, k)] : n \in {10, 11, 12, 23}, k \in {"relocatable", "info_req"} }
HGettersCase(p) ==
  [mem |-> HdrImage(0, [i \in 1..Len(p.ks) |-> HConformantTag(p.ks[i], i % 2)] \o <<HTag(0, 0, 8, 0)>>),
   al |-> 0,
   calls |-> <<[op |-> "hload"], [op |-> "hget", kind |-> "entry"], [op |-> "hget", kind |-> "module_align"],
               [op |-> "hget", kind |-> "info_req"], [op |-> "hget", kind |-> "relocatable"],
               [op |-> "hfield", kind |-> "entry", f |-> "entry_addr"], [op |-> "hfield", kind |-> "relocatable", f |-> "min_addr"],
               [op |-> "hfield", kind |-> "info_req", f |-> "requests"], [op |-> "hget", kind |-> "console"]>>,
   desc |-> [area |-> "hgetters"] @@ p]

\* ---- HDst: every declared size of every header-tag kind (C05 / C15 for the header crate) ------------------------------
\* fl: the tag's flags word (0 required, 1 optional) - nothing about sizes may depend on it
HDstParams == { [kind |-> n, size |-> s, fl |-> f] : n \in GettableKinds, s \in 0..40, f \in {0, 1} }
HDstTagF(name, size, fl) ==
  LET room == RoundUp8(Max(8, Min(size, 48)))
      t == [i \in 1..room |-> IF i <= 2 THEN U16Bytes(HeaderKind(name).id)[i] ELSE IF i <= 4 THEN U16Bytes(fl)[i - 2]
                              ELSE IF i <= 8 THEN U32Bytes(size)[i - 4] ELSE IF i <= size THEN FillA(i - 1) ELSE PadByte] IN
  CASE name = "console" /\ room >= 12 -> Override(t, 8, U32Bytes(1))
    [] name = "relocatable" /\ room >= 24 -> Override(t, 20, U32Bytes(2))
    [] OTHER -> t
HDstTag(name, size) == HDstTagF(name, size, 0)
HDstCase(p) ==
  [mem |-> HdrImage(0, <<HDstTagF(p.kind, p.size, p.fl), Nbr, HTag(0, 0, 8, 0)>>), al |-> 0,
   calls |-> <<[op |-> "hload"]>> \o HReadCalls(p.kind),
   desc |-> [area |-> "hdst"] @@ p]

\* ---- Find (C13): structural buffers  memx = [len, fill, patch] -------------------------------------------------------------
\* magic at position pos (or none), stored header length hl, optional second magic
\* (stored lengths also beyond 32768 - the specification's limit for where a header may LIE in an OS image is not a limit
\*  of this search - and architecture words of any value: the search goes by the magic alone)
FindParams == { [len |-> l, pos |-> pos, hl |-> hl, al |-> 0, arch |-> <<0, 0, 0, 0>>]
                : l \in FindLens, pos \in FindPos \cup {-1}, hl \in {0, 8, 16, 24, 4096, 32776, 40000, 1073741824} }
              \cup { [len |-> 64, pos |-> 8, hl |-> 16, al |-> a, arch |-> <<0, 0, 0, 0>>] : a \in 1..7 }
              \cup { [len |-> 64, pos |-> pos, hl |-> 16, al |-> 0, arch |-> ar]
                     : pos \in {0, 4, 8}, ar \in {<<4, 0, 0, 0>>, <<1, 0, 0, 0>>, <<3, 0, 0, 0>>, <<255, 255, 255, 255>>, <<214, 80, 82, 232>>} }
FindPatches(p) ==
  IF p.pos < 0 THEN <<>>
  ELSE << [off |-> p.pos, b |-> HdrMagic \o p.arch \o U32Bytes(p.hl)],
          [off |-> p.pos + 40, b |-> HdrMagic] >>        \* a second magic later in the buffer must not matter
FindCase(p) ==
  [memx |-> [len |-> p.len, fill |-> 0, patch |-> FindPatches(p)], mem |-> <<>>, al |-> p.al,
   calls |-> <<[op |-> "find_header"]>>,
   desc |-> [area |-> "find"] @@ p]

\* ---- Cks (C10): calc_checksum on boundary and structured values ----------------------------------------------------------------
CkWords == { <<0, 0, 0, 0>>, <<1, 0, 0, 0>>, <<255, 255, 255, 255>>, <<0, 0, 0, 128>>, <<255, 255, 255, 127>>,
             <<42, 175, 173, 23>>, <<0, 0, 0, 32>>, <<16, 0, 0, 0>>, <<214, 80, 82, 232>> }
\* lengths for which magic + arch + length is 0, 1 or -1 modulo 2^32 (the checksum itself is then 0, -1, 1)
ZeroSum(m, a) == { LimbBytes(LimbAdd(LimbNeg(LimbAdd(Limb(m), Limb(U32Bytes(a)))), d)) : d \in {LimbZero, [lo |-> 1, hi |-> 0], [lo |-> 65535, hi |-> 65535]} }
CksParams == UNION { { [m |-> m, a |-> a, l |-> l, ck |-> ck] : l \in CkWords \cup ZeroSum(m, a), ck \in {"ok", "plus", "minus", "top"} }
                     : m \in {HdrMagic, <<0, 0, 0, 0>>, <<255, 255, 255, 255>>}, a \in {0, 4} }
\* the same triple as a bare 16-byte basic header, with the right checksum and with three wrong ones
CksCase(p) ==
  [mem |-> p.m \o U32Bytes(p.a) \o p.l
           \o LimbBytes(LimbAdd(ChecksumLimb(Limb(p.m), Limb(U32Bytes(p.a)), Limb(p.l)),
                                 CASE p.ck = "ok" -> LimbZero [] p.ck = "plus" -> [lo |-> 1, hi |-> 0]
                                   [] p.ck = "minus" -> [lo |-> 65535, hi |-> 65535] [] OTHER -> [lo |-> 0, hi |-> 32768])),
   al |-> 0,
   calls |-> <<[op |-> "calc_checksum", magic |-> p.m, arch |-> p.a, length |-> p.l]>>
             \o [i \in 1..6 |-> [op |-> "basic", f |-> <<"header_magic", "arch", "length", "checksum", "verify_checksum", "dbg">>[i]]],
   desc |-> [area |-> "cks"] @@ p]
=============================================================================
