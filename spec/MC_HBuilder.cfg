SPECIFICATION MCSpec
CONSTANT Params <- HBuilderParams
CONSTANT MkCase <- HBuilderCase
CONSTANT MaxContent = 17
CONSTANT MaxSeq = 3
CONSTANT MaxTotal = 8
CONSTANT BigPalettes = {}
CONSTANT BigRequests = {}
INVARIANT DesignAccepted
INVARIANT DesignControlled
INVARIANT Export
PROPERTY Terminates
CHECK_DEADLOCK FALSE
