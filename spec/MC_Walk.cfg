SPECIFICATION MCSpec
CONSTANT Params <- WParams
CONSTANT MkCase <- WCase
CONSTANT MaxT = 32
INVARIANT DesignAccepted
INVARIANT DesignControlled
INVARIANT Export
PROPERTY Terminates
CHECK_DEADLOCK FALSE
