------------------------------- MODULE MC_Big -------------------------------
(* C02 / C10: loading regions and headers up to 1 MiB (structural images: zero fill + patches). *)
EXTENDS MCBase
CONSTANTS MaxPow, HugeLen8s
Pow2(k) == LET RECURSIVE P(_) P(i) == IF i = 0 THEN 1 ELSE 2 * P(i - 1) IN P(k)
Sizes == UNION { {Pow2(k) - 8, Pow2(k) - 4, Pow2(k), Pow2(k) + 1, Pow2(k) + 8, 3 * Pow2(k - 1)} : k \in 7..MaxPow }
BigParams == { [what |-> w, T |-> T, endok |-> e] : w \in {"info", "header"}, T \in Sizes, e \in BOOLEAN }
             \* regions of 1 GiB .. 4 GiB - 8 (T = -1; the size is len8 * 8): nothing limits a structure below what its 32-bit size field can say
             \cup { [what |-> w, T |-> -1, len8 |-> n, endok |-> e] : w \in {"info", "header"}, n \in HugeLen8s, e \in BOOLEAN }
HugeCase(p) ==
  LET sz == Shl3(U32Bytes(p.len8)) IN
  IF p.what = "info" THEN
     [memx |-> [huge |-> [len8 |-> p.len8, endok |-> p.endok,
                          patch |-> << [off8 |-> 0, b |-> sz \o <<0, 0, 0, 0>>],
                                       [end |-> 8, b |-> IF p.endok THEN EndTagBytes ELSE <<0, 0, 0, 0, 9, 0, 0, 0>>] >>]],
      mem |-> <<>>, al |-> 0, calls |-> <<[op |-> "load"]>>, desc |-> [area |-> "big"] @@ p]
  ELSE
     [memx |-> [huge |-> [len8 |-> p.len8, endok |-> p.endok,
                          patch |-> << [off8 |-> 0, b |-> HdrMagic \o U32Bytes(0) \o sz
                                                         \o (IF p.endok THEN ChecksumBytes(HdrMagic, U32Bytes(0), sz) ELSE <<1, 2, 3, 4>>)] >>]],
      mem |-> <<>>, al |-> 0, calls |-> <<[op |-> "hload"]>>, desc |-> [area |-> "big"] @@ p]
BigCase(p) ==
  IF p.T = -1 THEN HugeCase(p) ELSE
  LET len == RoundUp8(p.T) + 8
      tail == IF p.endok THEN EndTagBytes ELSE <<0, 0, 0, 0, 9, 0, 0, 0>> IN
  IF p.what = "info" THEN
     [memx |-> [len |-> len, fill |-> 0,
                patch |-> << [off |-> Max(p.T - 8, 8), b |-> tail], [off |-> 0, b |-> U32Bytes(p.T) \o <<0, 0, 0, 0>>] >>],
      mem |-> <<>>, al |-> 0, calls |-> <<[op |-> "load"]>>, desc |-> [area |-> "big"] @@ p]
  ELSE
     [memx |-> [len |-> len, fill |-> 0,
                patch |-> << [off |-> 0, b |-> HdrMagic \o U32Bytes(0) \o U32Bytes(p.T)
                                              \o (IF p.endok THEN ChecksumBytes(HdrMagic, U32Bytes(0), U32Bytes(p.T)) ELSE <<1, 2, 3, 4>>)] >>],
      mem |-> <<>>, al |-> 0, calls |-> <<[op |-> "hload"]>>, desc |-> [area |-> "big"] @@ p]
=============================================================================
