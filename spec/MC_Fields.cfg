SPECIFICATION MCSpec
CONSTANT Params <- FieldsParams
CONSTANT MkCase <- FieldsCase
CONSTANT MaxTags = 3
CONSTANT DstExtra = 9
CONSTANT MaxD = 64
CONSTANT LCap = 100
CONSTANT MaxN = 3
CONSTANT ElfSizes = {0, 8, 39, 40, 41, 64, 72}
CONSTANT ElfRots = {0, 3}
CONSTANT MaxStr = 3
CONSTANT StrKinds = {"cmdline", "bootloader", "module"}
INVARIANT DesignAccepted
INVARIANT DesignControlled
INVARIANT Export
PROPERTY Terminates
CHECK_DEADLOCK FALSE
