------------------------------ MODULE MC_Rsdp ------------------------------
EXTENDS MCInfoLib

\* ---- Rsdp corpus (C04): valid and invalid checksums, non-zero padding behind the tag ---------------------------------
\* byte `fix` of the summed range is chosen so that the sum over [8, 8+len) is zero; then one byte is perturbed
SumTo(b, from, n) == SumBytesMod256(Bytes(b, from, n))
RsdpTag(p) ==
  LET K == InfoKind(p.kind)
      t0 == RawTag(K.id, K.wire, p.v)
      t1 == IF p.kind = "rsdpv2" THEN Override(t0, 28, U32Bytes(p.len)) ELSE t0
      n == IF p.kind = "rsdpv2" THEN p.len ELSE 20
      t2 == IF n = 0 \/ 8 + n > Len(t1) THEN t1 ELSE Override(t1, 16, <<(256 + t1[17] - SumTo(t1, 8, n)) % 256>>)       \* fix the checksum byte
      t3 == IF p.perturb < 0 \/ p.perturb >= Len(t2) THEN t2 ELSE Override(t2, p.perturb, <<(t2[p.perturb + 1] + 1) % 256>>) IN
  t3
RsdpParams == { [kind |-> "rsdpv1", v |-> v, len |-> 20, perturb |-> q] : v \in {0, 1}, q \in {-1} \cup 8..31 }
              \cup UNION { { [kind |-> "rsdpv2", v |-> v, len |-> l, perturb |-> q] : v \in {0, 1}, q \in {-1, 16, 8 + l - 1, 8 + l, 43} }
                          : l \in {0, 20, 33, 35, 36} }
              \cup { [kind |-> "rsdpv2", v |-> 0, len |-> l, perturb |-> -1] : l \in {37, 40, 44, 1000, 1073741824} }
RsdpCase(p) ==
  [mem |-> InfoImage(<<RsdpTag(p), Neighbour>>), al |-> 0,
   calls |-> <<[op |-> "load"], [op |-> "field", kind |-> p.kind, f |-> "checksum_is_valid"],
               [op |-> "field", kind |-> p.kind, f |-> "signature"], [op |-> "dbg", what |-> p.kind]>>,
   desc |-> [area |-> "rsdp"] @@ p]
=============================================================================
