------------------------------ MODULE MB2TypeIds ------------------------------
(***************************************************************************)
(* C20: type-identifier conversions.  Values are 4-byte little-endian      *)
(* lists; classifications are given twice - per value (operators) and as   *)
(* interval tables partitioning 0..2^32-1 (exported for the native         *)
(* full-domain sweep); MC_TypeIds checks that the two agree.               *)
(***************************************************************************)
EXTENDS MB2Builder

TagTypeNames == <<"End", "Cmdline", "BootLoaderName", "Module", "BasicMeminfo", "Bootdev", "Mmap", "Vbe", "Framebuffer",
                  "ElfSections", "Apm", "Efi32", "Efi64", "Smbios", "AcpiV1", "AcpiV2", "Network", "EfiMmap", "EfiBs",
                  "Efi32Ih", "Efi64Ih", "LoadBaseAddr">>
\* which variant names the kind of the boot-information kind table
KindVariant(name) ==
  CASE name = "end" -> "End" [] name = "cmdline" -> "Cmdline" [] name = "bootloader" -> "BootLoaderName"
    [] name = "module" -> "Module" [] name = "meminfo" -> "BasicMeminfo" [] name = "bootdev" -> "Bootdev"
    [] name = "mmap" -> "Mmap" [] name = "vbe" -> "Vbe" [] name = "framebuffer" -> "Framebuffer" [] name = "elf" -> "ElfSections"
    [] name = "apm" -> "Apm" [] name = "efi32" -> "Efi32" [] name = "efi64" -> "Efi64" [] name = "smbios" -> "Smbios"
    [] name = "rsdpv1" -> "AcpiV1" [] name = "rsdpv2" -> "AcpiV2" [] name = "network" -> "Network" [] name = "efi_mmap" -> "EfiMmap"
    [] name = "efi_bs" -> "EfiBs" [] name = "efi32_ih" -> "Efi32Ih" [] name = "efi64_ih" -> "Efi64Ih"
    [] name = "load_base_addr" -> "LoadBaseAddr"
IsSmall(b, n) == b[2] = 0 /\ b[3] = 0 /\ b[4] = 0 /\ b[1] <= n
TagTypeVariant(b) == IF IsSmall(b, 21) THEN TagTypeNames[b[1] + 1] ELSE "Custom"
MemAreaNames == <<"Available", "Reserved", "AcpiAvailable", "ReservedHibernate", "Defective">>
MemAreaVariant(b) == IF IsSmall(b, 5) /\ b[1] >= 1 THEN MemAreaNames[b[1]] ELSE "Custom"

\* ---- interval tables (rows: lo, hi inclusive as 4-byte LE; class; optional discriminant) -------------------
W(n) == U32Bytes(n)                      \* small numbers only
MaxW == <<255, 255, 255, 255>>
TagTypeTable ==
  [i \in 1..22 |-> [lo |-> W(i - 1), hi |-> W(i - 1), class |-> TagTypeNames[i]]]
  \o <<[lo |-> W(22), hi |-> MaxW, class |-> "Custom"]>>
MemAreaTable ==
  <<[lo |-> W(0), hi |-> W(0), class |-> "Custom"]>>
  \o [i \in 1..5 |-> [lo |-> W(i), hi |-> W(i), class |-> MemAreaNames[i]]]
  \o <<[lo |-> W(6), hi |-> MaxW, class |-> "Custom"]>>
ElfTypeTable ==
  <<[lo |-> W(0), hi |-> W(0), class |-> "unused"]>>
  \o [i \in 1..11 |-> [lo |-> W(i), hi |-> W(i), class |-> "used", disc |-> W(i)]]
  \o <<[lo |-> W(12), hi |-> <<255, 255, 255, 95>>, class |-> "unused"],
       [lo |-> <<0, 0, 0, 96>>, hi |-> <<255, 255, 255, 111>>, class |-> "used", disc |-> <<0, 0, 0, 96>>],
       [lo |-> <<0, 0, 0, 112>>, hi |-> <<255, 255, 255, 127>>, class |-> "used", disc |-> <<0, 0, 0, 112>>],
       [lo |-> <<0, 0, 0, 128>>, hi |-> MaxW, class |-> "unused"]>>
Tables == [tag_type |-> TagTypeTable, mem_area_type |-> MemAreaTable, elf_type |-> ElfTypeTable]

\* row of a table that contains value b (on limbs)
RowOf(T, b) == T[CHOOSE i \in 1..Len(T) : LimbLe(Limb(T[i].lo), Limb(b)) /\ LimbLe(Limb(b), Limb(T[i].hi))]
One == [lo |-> 1, hi |-> 0]
IsPartition(T) ==
  /\ T[1].lo = W(0) /\ T[Len(T)].hi = MaxW
  /\ \A i \in 1..Len(T) : LimbLe(Limb(T[i].lo), Limb(T[i].hi))
  /\ \A i \in 1..(Len(T) - 1) : LimbAdd(Limb(T[i].hi), One) = Limb(T[i + 1].lo)
\* values around every interval end point
Around(b) == { LimbBytes(LimbAdd(Limb(b), [lo |-> d, hi |-> IF d > 60000 THEN 65535 ELSE 0])) : d \in {0, 1, 2, 65535, 65534} }
EndPoints(T) == UNION { Around(T[i].lo) \cup Around(T[i].hi) : i \in 1..Len(T) }
TablesAgree ==
  /\ \A b \in EndPoints(TagTypeTable) : RowOf(TagTypeTable, b).class = TagTypeVariant(b)
  /\ \A b \in EndPoints(MemAreaTable) : RowOf(MemAreaTable, b).class = MemAreaVariant(b)
  /\ \A b \in EndPoints(ElfTypeTable) :
       LET r == RowOf(ElfTypeTable, b) IN
       (r.class = "used") = ElfInUse(b) /\ (r.class = "used" => r.disc = ElfTypeDisc(b))

\* ---- acceptance of the conversion calls ---------------------------------------------------------------------------
AllEq(eqs, v) == \A i \in 1..Len(eqs) : eqs[i] = (IF v THEN 1 ELSE 0)
AcceptConvTagType(x, y, o) ==
  /\ o.k = "conv" /\ o.variant = TagTypeVariant(x) /\ o.via_id = TagTypeVariant(x)
  /\ o.back = x /\ o.val = x /\ o.id_back = x /\ o.id_new = x /\ o.via_id_back = x
  /\ (TagTypeVariant(x) = "Custom" => o.custom_payload = x)
  /\ AllEq(o.eqs, x = y)
  /\ (Has(o, "nc") => AllEq(o.nc, TRUE))            \* an explicit Custom(x) is numerically x, canonical or not
AcceptConvMemArea(x, y, o) ==
  /\ o.k = "conv" /\ o.variant = MemAreaVariant(x) /\ o.back = x /\ o.id_back = x
  /\ (MemAreaVariant(x) = "Custom" => o.custom_payload = x)
  /\ AllEq(o.eqs, x = y)
  /\ (Has(o, "nc") => AllEq(o.nc, TRUE))
AcceptConvElf(x, o) ==
  IF ElfInUse(x) THEN o.k = "conv" /\ o.class = "used" /\ o.disc = ElfTypeDisc(x)
  ELSE o.k = "conv" /\ o.class = "unused"
AcceptMagic(o) == o.k = "conv" /\ o.info = InfoMagic /\ o.header = HdrMagic /\ o.htag_count = W(11)
=============================================================================
