------------------------------- MODULE APA_Iter -------------------------------
(***************************************************************************)
(* The tag-iterator cursor machine (MB2Common!DesignTagNext) for regions   *)
(* and tag sizes of ANY magnitude, decided symbolically by Apalache:       *)
(*   IndInv    inductive invariant: the cursor is 8-aligned, at least the  *)
(*             start offset, and - unless the iterator is dead - at most   *)
(*             the end of the region; every item handed out lies inside    *)
(*             the region                                                  *)
(*             the region; a step that yields an item moves the cursor     *)
(*             forward by at least 8 - so at most (end - start) / 8 items  *)
(*             are ever yielded: iteration is finite, whatever the stored  *)
(*             sizes say                                                   *)
(*   apalache-mc check --init=Init    --inv=IndInv --length=1  (base case)  *)
(*   apalache-mc check --init=IndInit --inv=IndInv --length=1  (induction)  *)
(***************************************************************************)
EXTENDS Integers

VARIABLES
  \* @type: Int;
  start,
  \* @type: Int;
  end,
  \* @type: Int;
  cur,
  \* @type: Bool;
  dead,
  \* @type: Int;
  lastAt,       \* offset of the item yielded by the last step (-1: none)
  \* @type: Int;
  lastLen,      \* its in-memory size
  \* @type: Int;
  prevCur

W == 4294967296
RoundUp8(x) == ((x + 8 - 1) \div 8) * 8

TypeOK == start \in {8, 16} /\ end \in 0..W /\ end % 8 = 0 /\ end >= start

Init == TypeOK /\ cur = start /\ dead = FALSE /\ lastAt = -1 /\ lastLen = 0 /\ prevCur = start

IndInv ==
  /\ TypeOK
  /\ cur % 8 = 0 /\ cur >= start
  /\ (~dead => cur <= end)
  /\ (lastAt >= 0 => lastAt >= start /\ lastAt % 8 = 0 /\ lastLen >= 8 /\ lastAt + lastLen <= end)
  \* an item is only yielded by a step that moved the cursor forward by at least 8 and kept it inside the region
  /\ (lastAt >= 0 => cur >= prevCur + 8 /\ cur <= end /\ lastAt = prevCur)

\* arbitrary state satisfying the invariant (for the inductive step)
IndInit ==
  /\ start \in {8, 16} /\ end \in 0..W /\ cur \in 0..(2 * W) /\ dead \in BOOLEAN
  /\ lastAt \in (-1)..W /\ lastLen \in 0..W /\ prevCur \in 0..(2 * W)
  /\ IndInv

\* one call of next(): the stored size sz is arbitrary
Step(sz) ==
  /\ prevCur' = cur
  /\ UNCHANGED <<start, end>>
  /\ IF dead \/ cur = end THEN UNCHANGED <<cur, dead>> /\ lastAt' = -1 /\ lastLen' = 0
     ELSE IF sz < 8 THEN dead' = TRUE /\ UNCHANGED cur /\ lastAt' = -1 /\ lastLen' = 0          \* size assertion
     ELSE LET to == cur + RoundUp8(sz) IN
          IF to > end THEN dead' = TRUE /\ cur' = to /\ lastAt' = -1 /\ lastLen' = 0           \* NextPanicAdvances
          ELSE dead' = FALSE /\ cur' = to /\ lastAt' = cur /\ lastLen' = RoundUp8(sz)
Next == \E sz \in 0..(W - 1) : Step(sz)

\* falsifiable variant used to show the check is not vacuous: claims items move the cursor by at least 16
Bogus == lastAt >= 0 => cur >= prevCur + 16
=============================================================================
