-------------------------------- MODULE Trace --------------------------------
(***************************************************************************)
(* Trace validation: every event recorded from the real crates is consumed *)
(* by exactly one action which judges it with the declarative predicates   *)
(* of MB2Api.  A mismatch does not stop validation: it is printed as one   *)
(* VIOL line and the tracked state advances from the OBSERVED outcome.     *)
(***************************************************************************)
EXTENDS MB2Api, Json, IOUtils

Rec == ndJsonDeserialize(IOEnv.TRACE)

VARIABLES l,      \* next line to consume
          cs,     \* line of the current run's Reset event (the image is read from there)
          trk     \* tracked session state
vars == <<l, cs, trk>>

TraceInit == l = 1 /\ cs = 0 /\ trk = TrkInit

IsEv(e) == l <= Len(Rec) /\ Rec[l].ev = e

TReset ==
  /\ IsEv("Reset")
  /\ cs' = l /\ trk' = TrkInit /\ l' = l + 1

TCall ==
  /\ IsEv("Call")
  /\ cs > 0
  /\ LET c == Rec[cs].case  call == Rec[l].call  o == Rec[l].out
         bad == Violated(c, trk, call, o) IN
     /\ IF bad = {} THEN TRUE
        ELSE PrintT(<<"VIOL", ToJson([run |-> Rec[l].run, j |-> Rec[l].j, line |-> l, props |-> bad,
                                      id |-> c.id, call |-> call, out |-> o, cfg |-> Rec[cs].cfg,
                                      place |-> Rec[cs].place])>>)
     /\ trk' = Advance(c, trk, call, o)
  /\ l' = l + 1 /\ UNCHANGED cs

TraceNext == TReset \/ TCall
TraceSpec == TraceInit /\ [][TraceNext]_vars

\* every line was consumed (one state per line plus the initial state)
Consumed ==
  IF TLCGet("stats").diameter - 1 = Len(Rec) THEN PrintT(<<"CONSUMED", Len(Rec)>>)
  ELSE PrintT(<<"UNCONSUMED", TLCGet("stats").diameter, Len(Rec)>>) /\ FALSE
=============================================================================
