SPECIFICATION MCSpec
CONSTANT Params <- BoxedParams
CONSTANT MkCase <- BoxedCase
CONSTANT MaxContent = 17
CONSTANT MaxSeq = 3
CONSTANT MaxTotal = 8
CONSTANT BigPalettes = {}
CONSTANT BigRequests = {}
INVARIANT DesignAccepted
INVARIANT DesignControlled
INVARIANT Export
PROPERTY Terminates
CHECK_DEADLOCK FALSE
