-------------------------------- MODULE Trace8 --------------------------------
(***************************************************************************)
(* C08: results do not depend on build profile or optional features.       *)
(* The same cases are replayed by the harness built in every configuration *)
(* (dev/release x builder feature on/off); the traces are interleaved      *)
(* case-major (a pure reordering of lines).  The first configuration's     *)
(* outcomes of the current case are kept; every later configuration must   *)
(* report, call for call, the identical outcome (class, error, value,      *)
(* extent).  Each configuration is separately validated against the        *)
(* configuration-free specification by the other checks.                   *)
(***************************************************************************)
EXTENDS Naturals, Sequences, TLC, Json, IOUtils

Rec == ndJsonDeserialize(IOEnv.TRACE)
Unsupported == ToJson([k |-> "unsupported"])

VARIABLES l,        \* next line
          cur,      \* id of the current case
          collecting, \* TRUE while the first configuration of the case is being read
          ref,      \* outcomes (as canonical JSON text) of the first configuration, by call index
          refcfg,   \* name of that configuration
          curcfg    \* configuration of the run being read
vars == <<l, cur, collecting, ref, refcfg, curcfg>>

Init8 == l = 1 /\ cur = "" /\ collecting = FALSE /\ ref = <<>> /\ refcfg = "" /\ curcfg = ""

IsEv(e) == l <= Len(Rec) /\ Rec[l].ev = e

\* the run a Call line belongs to carries the cfg; remember it from the Reset line
TReset ==
  /\ IsEv("Reset")
  /\ IF Rec[l].case.id # cur
     THEN cur' = Rec[l].case.id /\ collecting' = TRUE /\ ref' = <<>> /\ refcfg' = Rec[l].cfg
     ELSE collecting' = FALSE /\ UNCHANGED <<cur, ref, refcfg>>
  /\ curcfg' = Rec[l].cfg
  /\ l' = l + 1

TCall ==
  /\ IsEv("Call")
  /\ LET o == ToJson(Rec[l].out)  j == Rec[l].j + 1 IN
     IF collecting THEN ref' = Append(ref, o)
     ELSE /\ UNCHANGED ref
          \* a call the harness cannot make without the optional feature (constructors, clone_dyn) is recorded as
          \* "unsupported" there; it says nothing about the library and is not compared
          /\ IF (j <= Len(ref) /\ ref[j] = o) \/ Rec[l].out.k = "unsupported" \/ (j <= Len(ref) /\ ref[j] = Unsupported) THEN TRUE
             ELSE PrintT(<<"VIOL", ToJson([run |-> Rec[l].run, j |-> Rec[l].j, line |-> l, props |-> {"C08"}, id |-> cur,
                                           call |-> Rec[l].call, out |-> Rec[l].out, cfg |-> curcfg, place |-> "end",
                                           ref |-> IF j <= Len(ref) THEN ref[j] ELSE "missing", refcfg |-> refcfg])>>)
  /\ l' = l + 1 /\ UNCHANGED <<cur, collecting, refcfg, curcfg>>

Next8 == TReset \/ TCall
Spec8 == Init8 /\ [][Next8]_vars

Consumed ==
  IF TLCGet("stats").diameter - 1 = Len(Rec) THEN PrintT(<<"CONSUMED", Len(Rec)>>)
  ELSE PrintT(<<"UNCONSUMED", TLCGet("stats").diameter, Len(Rec)>>) /\ FALSE
=============================================================================
