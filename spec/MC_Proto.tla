------------------------------- MODULE MC_Proto -------------------------------
(***************************************************************************)
(* C03, "histories": all interleavings up to Depth of next() / clone() on  *)
(* two independent tag iterators, a clone slot and a module iterator over  *)
(* the same region, for a set of representative regions (tiling, not       *)
(* tiling, undersized tag, undersized module tag, tag swallowing the end). *)
(* Iterators must be independent, clones must continue where the original  *)
(* stood, exhausted iterators stay exhausted.                              *)
(***************************************************************************)
EXTENDS MCBase

CONSTANTS Depth

Marker(i) == ((i * 3 + 7) % 249) + 1
\* regions as header sequences (type, size) placed along the walk, end tag forced at T - 8
Regions == << [T |-> 16, hs |-> <<>>],
              [T |-> 32, hs |-> <<[typ |-> 3, size |-> 16]>>],
              [T |-> 48, hs |-> <<[typ |-> 99, size |-> 9], [typ |-> 3, size |-> 17]>>],
              [T |-> 56, hs |-> <<[typ |-> 3, size |-> 8], [typ |-> 3, size |-> 16], [typ |-> 1, size |-> 12]>>],
              [T |-> 40, hs |-> <<[typ |-> 0, size |-> 8], [typ |-> 3, size |-> 16]>>],
              [T |-> 32, hs |-> <<[typ |-> 99, size |-> 4]>>],
              [T |-> 40, hs |-> <<[typ |-> 3, size |-> 16], [typ |-> 99, size |-> 100]>>],
              [T |-> 40, hs |-> <<[typ |-> 99, size |-> 32]>>] >>
RECURSIVE Place(_, _, _)
Place(mem, off, hs) ==
  IF hs = <<>> THEN mem
  ELSE LET h == hs[1]  hb == U32Bytes(h.typ) \o U32Bytes(h.size) IN
       Place([i \in 1..Len(mem) |-> IF i > off /\ i <= off + 8 THEN hb[i - off] ELSE mem[i]],
             off + RoundUp8(Max(h.size, 8)), Tail(hs))
Image(r) ==
  LET base == [i \in 1..r.T |-> Marker(i)]
      withH == Place(base, 8, r.hs)
      hdr == U32Bytes(r.T) \o <<0, 0, 0, 0>> IN
  [i \in 1..r.T |-> IF i <= 8 THEN hdr[i] ELSE IF i > r.T - 8 THEN EndTagBytes[i - (r.T - 8)] ELSE withH[i]]

Ops == { [op |-> "next", it |-> 0], [op |-> "next", it |-> 1], [op |-> "clone", it |-> 0, to |-> 2],
         [op |-> "nth", it |-> 0, n |-> 1], [op |-> "nth", it |-> 1, n |-> 4], [op |-> "count", it |-> 0], [op |-> "count", it |-> 3],
         [op |-> "next", it |-> 2], [op |-> "next", it |-> 3], [op |-> "clone", it |-> 3, to |-> 4], [op |-> "next", it |-> 4] }
RECURSIVE SeqsOfLen(_, _)
SeqsOfLen(S, n) == IF n = 0 THEN {<<>>} ELSE { <<x>> \o r : x \in S, r \in SeqsOfLen(S, n - 1) }
ProtoParams == { [r |-> r, seq |-> q] : r \in 1..Len(Regions), q \in SeqsOfLen(Ops, Depth) }
ProtoCase(p) ==
  [mem |-> Image(Regions[p.r]), al |-> 0,
   calls |-> <<[op |-> "load"], [op |-> "tags", it |-> 0], [op |-> "tags", it |-> 1], [op |-> "module_tags", it |-> 3]>> \o p.seq
             \o <<[op |-> "next", it |-> 0], [op |-> "next", it |-> 2], [op |-> "next", it |-> 4]>>,
   desc |-> [area |-> "proto", region |-> p.r, seq |-> p.seq]]
=============================================================================
