SPECIFICATION Spec8
POSTCONDITION Consumed
CHECK_DEADLOCK FALSE
