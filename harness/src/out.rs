//! Projection helpers: how real values become abstract outcomes.
//! No JSON number >= 2^31 and no absolute address is ever logged.

use serde_json::{json, Value};

pub const FAR: i64 = 1 << 30;

/// Clamp an integer into the range TLC can represent and compare safely.
pub fn clamp(n: i128) -> i64 {
    if n >= FAR as i128 {
        FAR
    } else if n <= -(FAR as i128) {
        -FAR
    } else {
        n as i64
    }
}

pub fn num(n: usize) -> Value {
    json!(clamp(n as i128))
}

/// little-endian byte list of the low `width` bytes of `n`
pub fn le(n: u64, width: usize) -> Value {
    Value::Array((0..width).map(|i| json!((n >> (8 * i)) & 0xff)).collect())
}

pub fn bytes(b: &[u8]) -> Value {
    Value::Array(b.iter().map(|x| json!(*x)).collect())
}

pub fn val(n: u64, width: usize) -> Value {
    json!({"k": "val", "v": le(n, width)})
}

pub fn valb(b: &[u8]) -> Value {
    json!({"k": "val", "v": bytes(b)})
}

pub fn boolean(b: bool) -> Value {
    json!({"k": "val", "v": [if b { 1 } else { 0 }]})
}

pub fn none() -> Value {
    json!({"k": "none"})
}

pub fn some(v: Value) -> Value {
    json!({"k": "some", "v": v})
}

pub fn ok(v: Value) -> Value {
    json!({"k": "ok", "v": v})
}

pub fn err(e: &str) -> Value {
    json!({"k": "err", "e": e})
}

/// An error value of the library: identified by its Debug text; its Display rendering is produced as
/// well (an application that reports the error formats it that way), so that it is part of the call.
pub fn err_of<E: std::fmt::Debug + std::fmt::Display>(e: &E) -> Value {
    std::hint::black_box(format!("{e}"));
    err(&format!("{e:?}"))
}

pub fn errv(e: &str, v: Value) -> Value {
    json!({"k": "err", "e": e, "v": v})
}

pub fn unit() -> Value {
    json!({"k": "unit"})
}

pub fn skipped() -> Value {
    json!({"k": "skipped"})
}

pub fn unsupported() -> Value {
    json!({"k": "unsupported"})
}

/// The bytes of a case image: either a plain byte array or
/// {"len": N, "fill": b, "patch": [[off, [bytes]], ...]}.
pub fn case_bytes(case: &Value) -> Vec<u8> {
    let m = if case["memx"].is_object() { &case["memx"] } else { &case["mem"] };
    match m {
        Value::Array(a) => a.iter().map(|x| x.as_u64().unwrap() as u8).collect(),
        Value::Object(o) if o.contains_key("huge") => Vec::new(),
        Value::Object(o) => {
            let len = o["len"].as_u64().unwrap() as usize;
            let fill = o.get("fill").and_then(|x| x.as_u64()).unwrap_or(0) as u8;
            let mut v = vec![fill; len];
            // "tile": a byte pattern repeated from offset 0 (e.g. an 8-byte tag), under the patches
            if let Some(t) = o.get("tile").and_then(|x| x.as_array()) {
                let t: Vec<u8> = t.iter().map(|b| b.as_u64().unwrap() as u8).collect();
                if !t.is_empty() {
                    for (i, b) in v.iter_mut().enumerate() {
                        *b = t[i % t.len()];
                    }
                }
            }
            if let Some(p) = o.get("patch").and_then(|x| x.as_array()) {
                for e in p {
                    let off = e["off"].as_u64().unwrap() as usize;
                    for (i, b) in e["b"].as_array().unwrap().iter().enumerate() {
                        if off + i < len {
                            v[off + i] = b.as_u64().unwrap() as u8;
                        }
                    }
                }
            }
            v
        }
        _ => Vec::new(),
    }
}

pub fn arg_u64(call: &Value, name: &str) -> u64 {
    match &call[name] {
        Value::Number(n) => n.as_u64().unwrap_or(0),
        // little-endian byte list
        Value::Array(a) => a
            .iter()
            .enumerate()
            .fold(0u64, |acc, (i, b)| acc | (b.as_u64().unwrap() << (8 * i))),
        _ => 0,
    }
}

pub fn arg_bytes(call: &Value, name: &str) -> Vec<u8> {
    call[name]
        .as_array()
        .map(|a| a.iter().map(|x| x.as_u64().unwrap() as u8).collect())
        .unwrap_or_default()
}

pub fn arg_str<'a>(call: &'a Value, name: &str) -> &'a str {
    call[name].as_str().unwrap_or("")
}

/// A formatting sink that accepts `0` more bytes and then fails.
pub struct Limited(pub usize);
impl std::fmt::Write for Limited {
    fn write_str(&mut self, s: &str) -> std::fmt::Result {
        if s.len() > self.0 {
            self.0 = 0;
            return Err(std::fmt::Error);
        }
        self.0 -= s.len();
        Ok(())
    }
}
