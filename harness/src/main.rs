//! mb2conf — conformance harness: replays specification-generated cases on the
//! real multiboot2 crates and records projected outcomes as an ndjson trace.
//! It contains no expected values: the trace is judged by TLC (spec/Trace.tla).

mod alloc_track;
mod guard;
mod ops;
mod out;

use guard::{Arena, Place};

#[global_allocator]
static GLOBAL: alloc_track::Tracking = alloc_track::Tracking;
use serde_json::{json, Value};
use std::fs::{File, OpenOptions};
use std::io::{BufRead, BufReader, Read, Seek, SeekFrom, Write};
use std::os::unix::process::ExitStatusExt;
use std::process::Command;

pub const CFG: &str = if cfg!(debug_assertions) {
    if cfg!(feature = "builder") {
        "dev+b"
    } else {
        "dev-b"
    }
} else if cfg!(feature = "builder") {
    "rel+b"
} else {
    "rel-b"
};

struct Args {
    cases: String,
    out: String,
    from: usize,
    shard: usize,
    nshards: usize,
    places: Vec<Place>,
    timeout: u32,
}

fn parse_args(a: &[String]) -> Args {
    let mut r = Args {
        cases: String::new(),
        out: String::new(),
        from: 0,
        shard: 0,
        nshards: 1,
        places: vec![Place::End],
        timeout: 10,
    };
    let mut i = 0;
    while i < a.len() {
        let v = a.get(i + 1).cloned().unwrap_or_default();
        match a[i].as_str() {
            "--cases" => r.cases = v,
            "--out" => r.out = v,
            "--from" => r.from = v.parse().unwrap(),
            "--timeout" => r.timeout = v.parse().unwrap(),
            "--shard" => {
                let (k, n) = v.split_once('/').expect("--shard k/n");
                r.shard = k.parse().unwrap();
                r.nshards = n.parse().unwrap();
            }
            "--place" => {
                r.places = match v.as_str() {
                    "end" => vec![Place::End],
                    "start" => vec![Place::Start],
                    "both" => vec![Place::End, Place::Start],
                    _ => panic!("--place end|start|both"),
                }
            }
            x => panic!("unknown argument {x}"),
        }
        i += 2;
    }
    assert!(!r.cases.is_empty() && !r.out.is_empty(), "--cases and --out are required");
    r
}

fn load_cases(path: &str, shard: usize, nshards: usize) -> Vec<Value> {
    let f = BufReader::new(File::open(path).expect("cases file"));
    let mut v = Vec::new();
    for (i, line) in f.lines().enumerate() {
        let line = line.unwrap();
        if line.trim().is_empty() {
            continue;
        }
        if i % nshards != shard {
            continue;
        }
        v.push(serde_json::from_str(&line).expect("case json"));
    }
    v
}

fn main() {
    let argv: Vec<String> = std::env::args().collect();
    if argv.len() < 2 {
        eprintln!("usage: mb2conf run|worker|cfg ...");
        std::process::exit(2);
    }
    match argv[1].as_str() {
        "cfg" => println!("{CFG}"),
        "run" => supervisor(&argv[0], parse_args(&argv[2..])),
        "worker" => worker(parse_args(&argv[2..])),
        "sweep" => ops::sweep::main(&argv[2..]),
        _ => {
            eprintln!("unknown sub-command");
            std::process::exit(2);
        }
    }
}

/// Reads the last complete line of the trace (truncating a partial one).
fn last_event(path: &str) -> Option<Value> {
    let mut f = OpenOptions::new().read(true).write(true).open(path).ok()?;
    let len = f.metadata().ok()?.len();
    if len == 0 {
        return None;
    }
    let back = len.min(1 << 22);
    f.seek(SeekFrom::Start(len - back)).ok()?;
    let mut buf = Vec::new();
    f.read_to_end(&mut buf).ok()?;
    // drop a trailing partial line
    let mut end = buf.len();
    if buf[end - 1] != b'\n' {
        match buf.iter().rposition(|&b| b == b'\n') {
            Some(p) => end = p + 1,
            None => end = 0,
        }
        f.set_len(len - (buf.len() - end) as u64).ok()?;
    }
    if end == 0 {
        return None;
    }
    let body = &buf[..end - 1];
    let start = body.iter().rposition(|&b| b == b'\n').map(|p| p + 1).unwrap_or(0);
    serde_json::from_slice(&body[start..]).ok()
}

fn supervisor(exe: &str, args: Args) {
    let cases = load_cases(&args.cases, args.shard, args.nshards);
    File::create(&args.out).expect("trace file");
    let n = cases.len() * args.places.len();
    let mut from = 0usize;
    let mut crashes = 0usize;
    while from < n {
        let place = match args.places.as_slice() {
            [Place::End] => "end",
            [Place::Start] => "start",
            _ => "both",
        };
        let status = Command::new(exe)
            .args([
                "worker",
                "--cases",
                &args.cases,
                "--out",
                &args.out,
                "--from",
                &from.to_string(),
                "--shard",
                &format!("{}/{}", args.shard, args.nshards),
                "--place",
                place,
                "--timeout",
                &args.timeout.to_string(),
            ])
            .status()
            .expect("spawn worker");
        if status.success() {
            break;
        }
        let sig = status.signal().unwrap_or(0);
        if sig == 0 {
            eprintln!("worker exited with {status:?} (tool error)");
            std::process::exit(2);
        }
        crashes += 1;
        // which call died? the one after the last recorded event
        let last = last_event(&args.out);
        let (run, j) = match &last {
            Some(e) if e["ev"] == "Reset" => (e["run"].as_u64().unwrap() as usize, 0usize),
            Some(e) if e["ev"] == "Call" => (
                e["run"].as_u64().unwrap() as usize,
                e["j"].as_u64().unwrap() as usize + 1,
            ),
            _ => {
                eprintln!("worker died (signal {sig}) before writing any event (tool error)");
                std::process::exit(2);
            }
        };
        if run < from {
            eprintln!("worker died (signal {sig}) before starting run {from} (tool error)");
            std::process::exit(2);
        }
        let case = &cases[run / args.places.len()];
        let call = case["calls"].get(j).cloned().unwrap_or(json!({"op": "?"}));
        let kind = if sig == libc::SIGALRM { "hang" } else { "crash" };
        let ev = json!({"ev": "Call", "run": run, "j": j, "call": call, "out": {"k": kind, "sig": sig}});
        let mut f = OpenOptions::new().append(true).open(&args.out).unwrap();
        writeln!(f, "{ev}").unwrap();
        from = run + 1;
    }
    eprintln!(
        "mb2conf[{CFG}] shard {}/{}: {} runs, {} worker crashes",
        args.shard, args.nshards, n, crashes
    );
}

struct SendPtr<T>(*mut T);
unsafe impl<T> Send for SendPtr<T> {}
impl<T> SendPtr<T> {
    // a method (not a field access), so that the closure captures the whole wrapper
    fn get(&self) -> *mut T {
        self.0
    }
}

fn on_small_stack(bytes: usize, ctx: &mut ops::Ctx, call: &Value) -> Value {
    let p = SendPtr(ctx as *mut ops::Ctx);
    let c = SendPtr(call as *const Value as *mut Value);
    std::thread::scope(|s| {
        std::thread::Builder::new()
            .stack_size(bytes)
            .spawn_scoped(s, move || {
                let ctx = unsafe { &mut *p.get() };
                let call = unsafe { &*(c.get() as *const Value) };
                SendPtr(Box::into_raw(Box::new(ops::perform(ctx, call))))
            })
            .expect("spawn")
            .join()
            .map(|b| *unsafe { Box::from_raw(b.get()) })
            .unwrap_or_else(|_| json!({"k": "panic"}))
    })
}

struct Sink;
static SINK: Sink = Sink;
impl log::Log for Sink {
    fn enabled(&self, _: &log::Metadata) -> bool {
        true
    }
    fn log(&self, r: &log::Record) {
        use std::fmt::Write as _;
        let mut s = String::new();
        let _ = write!(s, "{}", r.args());
        std::hint::black_box(&s);
    }
    fn flush(&self) {}
}

fn worker(args: Args) {
    // silent panics: a panic of the code under test is data
    std::panic::set_hook(Box::new(|_| {}));
    // an application may have a logger installed at any level: the library's log statements then
    // evaluate and format their arguments, and whatever they touch is part of the call (C01, C19)
    log::set_logger(&SINK).ok();
    log::set_max_level(log::LevelFilter::Trace);
    alloc_track::poison(true);
    let cases = load_cases(&args.cases, args.shard, args.nshards);
    let mut f = OpenOptions::new().append(true).open(&args.out).expect("trace file");
    let mut arena = Arena::new();
    let np = args.places.len();
    for run in args.from..cases.len() * np {
        let case = &cases[run / np];
        let place = args.places[run % np];
        // "huge": a zero-filled region of len8 * 8 bytes (up to 4 GiB - 8) of which only the patched pages exist
        let huge = case["memx"]["huge"].as_object().map(|h| {
            let len = h["len8"].as_u64().unwrap() as usize * 8;
            let patches: Vec<(usize, Vec<u8>)> = h["patch"]
                .as_array()
                .map(|a| {
                    a.iter()
                        .map(|e| {
                            // offsets from the start (off8 * 8) or back from the end (end)
                            let off = match e["end"].as_u64() {
                                Some(back) => len - back as usize,
                                None => e["off8"].as_u64().unwrap_or(0) as usize * 8,
                            };
                            (off, e["b"].as_array().unwrap().iter().map(|b| b.as_u64().unwrap() as u8).collect())
                        })
                        .collect()
                })
                .unwrap_or_default();
            guard::Huge::new(len, &patches)
        });
        let (base, len) = match &huge {
            Some(h) => (h.base, h.len),
            None => {
                let bytes = out::case_bytes(case);
                let al = case["al"].as_u64().unwrap_or(0) as usize;
                (arena.place(&bytes, al, place), bytes.len())
            }
        };
        let mut ctx = ops::Ctx::new(base, len);
        ops::prepare(&mut ctx, case);
        let mut reset = json!({"ev": "Reset", "run": run, "cfg": CFG, "place": place.name(), "case": case});
        if let Some(ext) = ctx.ext_json() {
            reset["ext"] = ext;
        }
        let mut line = serde_json::to_vec(&reset).unwrap();
        line.push(b'\n');
        f.write_all(&line).unwrap();
        if let Some(calls) = case["calls"].as_array() {
            for (j, call) in calls.iter().enumerate() {
                unsafe { libc::alarm(args.timeout) };
                // "stack": N - the call runs on a thread with a stack of N bytes (depth of recursion is part of
                // "always terminates, never crashes": a stack overflow aborts the process and is recorded as a crash)
                let o = match case["stack"].as_u64() {
                    None => ops::perform(&mut ctx, call),
                    Some(n) => on_small_stack(n as usize, &mut ctx, call),
                };
                unsafe { libc::alarm(0) };
                let mut line =
                    serde_json::to_vec(&json!({"ev": "Call", "run": run, "j": j, "call": call, "out": o}))
                        .unwrap();
                line.push(b'\n');
                f.write_all(&line).unwrap();
            }
        }
        ops::finish(&mut ctx, &mut f, run);
    }
}
