//! Guard-page sandwich: a read/write window surrounded on both sides by
//! PROT_NONE reservations. Images are placed flush against the upper guard
//! ("end" placement: any over-read faults) or flush against the lower guard
//! ("start" placement: any under-read faults).

use std::ptr;

const GUARD: usize = 8 << 30; // 8 GiB each side; costs address space only
pub const WINDOW: usize = 4 << 20; // 4 MiB read/write window
pub const FILL: u8 = 0xA5; // slack filler inside the window

#[derive(Clone, Copy, PartialEq, Eq, Debug)]
pub enum Place {
    End,
    Start,
}

impl Place {
    pub fn name(self) -> &'static str {
        match self {
            Place::End => "end",
            Place::Start => "start",
        }
    }
}

pub struct Arena {
    win: *mut u8,
    dirty_lo: usize, // window-relative dirty range of the previous image
    dirty_hi: usize,
}

impl Arena {
    pub fn new() -> Arena {
        // the window ends exactly at a multiple of 4 GiB: an image placed at its end reaches a 4 GiB boundary of
        // the address space (low 32 bits of its end address are zero), one placed at its start lies just below it
        const FOUR_GIB: usize = 4 << 30;
        let total = GUARD + WINDOW + GUARD + FOUR_GIB;
        let p = unsafe {
            libc::mmap(
                ptr::null_mut(),
                total,
                libc::PROT_NONE,
                libc::MAP_PRIVATE | libc::MAP_ANONYMOUS | libc::MAP_NORESERVE,
                -1,
                0,
            )
        };
        assert!(p != libc::MAP_FAILED, "guard reservation failed");
        let end = (p as usize + GUARD + WINDOW + FOUR_GIB - 1) / FOUR_GIB * FOUR_GIB;
        let win = (end - WINDOW) as *mut u8;
        assert!(win as usize >= p as usize + GUARD && end + GUARD <= p as usize + total);
        // window start is page aligned because GUARD is a multiple of the page size
        let rc = unsafe { libc::mprotect(win as *mut _, WINDOW, libc::PROT_READ | libc::PROT_WRITE) };
        assert_eq!(rc, 0, "mprotect failed");
        unsafe { ptr::write_bytes(win, FILL, WINDOW) };
        Arena {
            win,
            dirty_lo: 0,
            dirty_hi: 0,
        }
    }

    /// Copies `bytes` into the window so that the image start address is
    /// congruent to `al` modulo 8, as close as possible to the requested guard.
    pub fn place(&mut self, bytes: &[u8], al: usize, place: Place) -> *mut u8 {
        assert!(bytes.len() + 16 <= WINDOW, "image too large for the window");
        assert!(al < 8);
        unsafe {
            // clean what the previous image dirtied
            ptr::write_bytes(self.win.add(self.dirty_lo), FILL, self.dirty_hi - self.dirty_lo);
        }
        let off = match place {
            Place::Start => al, // window start is 4096-aligned
            Place::End => {
                let mut o = WINDOW - bytes.len();
                // largest o' <= o with o' % 8 == al
                let r = o % 8;
                o = if r >= al { o - (r - al) } else { o - (r + 8 - al) };
                o
            }
        };
        unsafe {
            ptr::copy_nonoverlapping(bytes.as_ptr(), self.win.add(off), bytes.len());
        }
        self.dirty_lo = off;
        self.dirty_hi = off + bytes.len();
        unsafe { self.win.add(off) }
    }
}

/// A region of `len` bytes (any size up to the 32-bit maximum) that is committed lazily: only the pages the
/// patches touch ever exist. It ends flush against a PROT_NONE page. Unmapped on drop.
pub struct Huge {
    map: *mut u8,
    map_len: usize,
    pub base: *mut u8,
    pub len: usize,
}

impl Huge {
    pub fn new(len: usize, patches: &[(usize, Vec<u8>)]) -> Huge {
        let page = 4096;
        let body = (len + page - 1) / page * page;
        let map_len = body + page;
        let p = unsafe {
            libc::mmap(
                ptr::null_mut(),
                map_len,
                libc::PROT_READ | libc::PROT_WRITE,
                libc::MAP_PRIVATE | libc::MAP_ANONYMOUS | libc::MAP_NORESERVE,
                -1,
                0,
            )
        };
        assert!(p != libc::MAP_FAILED, "huge reservation failed");
        let map = p as *mut u8;
        let rc = unsafe { libc::mprotect(map.add(body) as *mut _, page, libc::PROT_NONE) };
        assert_eq!(rc, 0, "mprotect failed");
        let base = unsafe { map.add(body - len) };
        for (off, b) in patches {
            assert!(off + b.len() <= len);
            unsafe { ptr::copy_nonoverlapping(b.as_ptr(), base.add(*off), b.len()) };
        }
        Huge { map, map_len, base, len }
    }
}

impl Drop for Huge {
    fn drop(&mut self) {
        unsafe { libc::munmap(self.map as *mut _, self.map_len) };
    }
}
