//! Tracking global allocator: between mark() and unmark() every alloc / dealloc /
//! realloc is recorded (address, size, align) in a fixed buffer (C16).

use std::alloc::{GlobalAlloc, Layout, System};
use std::sync::atomic::{AtomicBool, AtomicUsize, Ordering};

#[derive(Clone, Copy)]
pub struct Event {
    pub alloc: bool,
    pub addr: usize,
    pub size: usize,
    pub align: usize,
}

const CAP: usize = 8192;
static mut EVENTS: [Event; CAP] = [Event { alloc: false, addr: 0, size: 0, align: 0 }; CAP];
static N: AtomicUsize = AtomicUsize::new(0);
static ON: AtomicBool = AtomicBool::new(false);
/// When set, every fresh allocation is filled with 0xA5 first: bytes the library forgets to
/// initialise in a boxed structure then differ from what the specification says they are.
static POISON: AtomicBool = AtomicBool::new(false);

pub fn poison(on: bool) {
    POISON.store(on, Ordering::Relaxed);
}

pub struct Tracking;

fn record(alloc: bool, addr: usize, size: usize, align: usize) {
    if ON.load(Ordering::Relaxed) {
        // a ring: when more than CAP events occur, the most recent ones are kept (the object a constructor
        // returns is allocated last, after the harness has parsed its arguments)
        let i = N.fetch_add(1, Ordering::Relaxed);
        unsafe { EVENTS[i % CAP] = Event { alloc, addr, size, align } };
    }
}

unsafe impl GlobalAlloc for Tracking {
    unsafe fn alloc(&self, l: Layout) -> *mut u8 {
        let p = System.alloc(l);
        if !p.is_null() && POISON.load(Ordering::Relaxed) {
            core::ptr::write_bytes(p, 0xA5, l.size());
        }
        record(true, p as usize, l.size(), l.align());
        p
    }
    unsafe fn dealloc(&self, p: *mut u8, l: Layout) {
        record(false, p as usize, l.size(), l.align());
        System.dealloc(p, l)
    }
    unsafe fn realloc(&self, p: *mut u8, l: Layout, new_size: usize) -> *mut u8 {
        record(false, p as usize, l.size(), l.align());
        let q = System.realloc(p, l, new_size);
        if !q.is_null() && new_size > l.size() && POISON.load(Ordering::Relaxed) {
            core::ptr::write_bytes(q.add(l.size()), 0xA5, new_size - l.size());
        }
        record(true, q as usize, new_size, l.align());
        q
    }
}

pub fn mark() {
    N.store(0, Ordering::Relaxed);
    ON.store(true, Ordering::Relaxed);
}

pub fn unmark() -> Vec<Event> {
    ON.store(false, Ordering::Relaxed);
    let n = N.load(Ordering::Relaxed);
    (n.saturating_sub(CAP)..n).map(|i| unsafe { EVENTS[i % CAP] }).collect()
}
