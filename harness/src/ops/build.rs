//! Construction side (cargo feature `builder`): every public constructor (C07), the two
//! builders (C06 / C12), new_boxed / clone_dyn with allocator events (C16).

use super::common::{Hdr12, Hdr4};
use super::ctor::*;
use super::Ctx;
use crate::alloc_track::{self, Event};
use crate::out;
use multiboot2::*;
use multiboot2_common::test_utils::{DummyDstTag, DummyTestHeader};
use multiboot2_common::{clone_dyn, new_boxed, DynSizedStructure};
use multiboot2_header as h;
use serde_json::{json, Value};
use std::collections::HashMap;
use std::mem::size_of_val;
use std::panic::{catch_unwind, AssertUnwindSafe};


/// A byte argument as the caller's slice at an ODD address (offset 1 of a fresh buffer): constructors copy
/// their arguments, nothing about the source's alignment may matter.
struct Odd(Vec<u8>);
impl Odd {
    fn of(b: Vec<u8>) -> Odd {
        // Vec<u8> buffers come 8-aligned (or better) from the allocator: one byte in front makes the data odd
        let mut v = Vec::with_capacity(b.len() + 1);
        v.push(0xEE);
        v.extend_from_slice(&b);
        Odd(v)
    }
    fn bytes(&self) -> &[u8] {
        &self.0[1..]
    }
    fn text(&self) -> &str {
        std::str::from_utf8(self.bytes()).expect("text argument must be UTF-8")
    }
}

#[allow(dead_code)]
fn s(call: &Value, n: &str) -> String {
    // text arguments travel as byte lists
    String::from_utf8(out::arg_bytes(call, n)).expect("text argument must be UTF-8")
}


/// allocator events with addresses replaced by small ids (order of first appearance)
fn events_json(ev: &[Event], ids: &mut HashMap<usize, u64>) -> Value {
    Value::Array(
        ev.iter()
            .map(|e| {
                let n = ids.len() as u64 + 1;
                let id = *ids.entry(e.addr).or_insert(n);
                json!({"ev": if e.alloc { "alloc" } else { "dealloc" }, "id": id, "size": out::num(e.size), "align": out::num(e.align)})
            })
            .collect(),
    )
}



// ---- constructors: arguments -> concrete tag ------------------------------------------------

fn mk_cmdline(c: &Value) -> Box<CommandLineTag> {
    CommandLineTag::new(Odd::of(out::arg_bytes(c, "text")).text())
}
fn mk_bootloader(c: &Value) -> Box<BootLoaderNameTag> {
    BootLoaderNameTag::new(Odd::of(out::arg_bytes(c, "text")).text())
}
fn mk_module(c: &Value) -> Box<ModuleTag> {
    ModuleTag::new(u(c, "start_address") as u32, u(c, "end_address") as u32, Odd::of(out::arg_bytes(c, "text")).text())
}
fn mk_mmap(c: &Value) -> Box<MemoryMapTag> {
    let areas: Vec<MemoryArea> = c["areas"]
        .as_array()
        .map(|a| {
            a.iter()
                .map(|x| MemoryArea::new(u(x, "start_address"), u(x, "size"), MemoryAreaTypeId::from(u(x, "typ") as u32)))
                .collect()
        })
        .unwrap_or_default();
    MemoryMapTag::new(&areas)
}
fn mk_framebuffer(c: &Value) -> Box<FramebufferTag> {
    let pal: Vec<FramebufferColor> = c["palette"]
        .as_array()
        .map(|a| {
            a.iter()
                .map(|x| FramebufferColor { red: x[0].as_u64().unwrap() as u8, green: x[1].as_u64().unwrap() as u8, blue: x[2].as_u64().unwrap() as u8 })
                .collect()
        })
        .unwrap_or_default();
    let rgb = out::arg_bytes(c, "rgb");
    let ty = match out::arg_str(c, "fbtype") {
        "indexed" => FramebufferType::Indexed { palette: &pal },
        "rgb" => FramebufferType::RGB {
            red: FramebufferField { position: rgb[0], size: rgb[1] },
            green: FramebufferField { position: rgb[2], size: rgb[3] },
            blue: FramebufferField { position: rgb[4], size: rgb[5] },
        },
        _ => FramebufferType::Text,
    };
    FramebufferTag::new(u(c, "address"), u(c, "pitch") as u32, u(c, "width") as u32, u(c, "height") as u32, u(c, "bpp") as u8, ty)
}
fn mk_elf(c: &Value) -> Box<ElfSectionsTag> {
    ElfSectionsTag::new(u(c, "number_of_sections") as u32, u(c, "entry_size") as u32, u(c, "shndx") as u32, Odd::of(out::arg_bytes(c, "content")).bytes())
}
fn mk_smbios(c: &Value) -> Box<SmbiosTag> {
    SmbiosTag::new(u(c, "major") as u8, u(c, "minor") as u8, Odd::of(out::arg_bytes(c, "content")).bytes())
}
fn mk_network(c: &Value) -> Box<NetworkTag> {
    NetworkTag::new(Odd::of(out::arg_bytes(c, "content")).bytes())
}
fn mk_efi_mmap(c: &Value) -> Box<EFIMemoryMapTag> {
    if let Some(ds) = c["descs"].as_array() {
        let descs: Vec<EFIMemoryDesc> = ds
            .iter()
            .map(|x| EFIMemoryDesc {
                ty: EFIMemoryAreaType(u(x, "ty") as u32),
                phys_start: u(x, "phys_start"),
                virt_start: u(x, "virt_start"),
                page_count: u(x, "page_count"),
                att: EFIMemoryAttribute::from_bits_retain(u(x, "att")),
            })
            .collect();
        EFIMemoryMapTag::new_from_descs(&descs)
    } else {
        EFIMemoryMapTag::new_from_map(u(c, "desc_size") as u32, u(c, "desc_version") as u32, Odd::of(out::arg_bytes(c, "content")).bytes())
    }
}
fn mk_custom(c: &Value) -> Box<DynSizedStructure<TagHeader>> {
    new_boxed(TagHeader::new(TagTypeId::new(u(c, "typ") as u32), 0), &[Odd::of(out::arg_bytes(c, "content")).bytes()])
}
fn mk_info_req(c: &Value) -> Box<h::InformationRequestHeaderTag> {
    let reqs: Vec<h::MbiTagTypeId> = c["requests"].as_array().map(|a| a.iter().map(|x| h::MbiTagTypeId::new(out::arg_u64(&json!({"v": x}), "v") as u32)).collect()).unwrap_or_default();
    h::InformationRequestHeaderTag::new(hflag(c), &reqs)
}

/// runs a constructor with allocator tracking; describes the result (and its clone) and drops it
fn boxed<T: ?Sized + MaybeDynSized<Metadata = usize> + PartialEq>(c: &Value, f: impl FnOnce() -> Box<T>, id_const: u64) -> Value {
    boxed_opt(c, f, id_const, Some(|a: &T, b: &T| a == b))
}

/// `eq`: the type's own PartialEq, where it has one
fn boxed_opt<T: ?Sized + MaybeDynSized<Metadata = usize>>(c: &Value, f: impl FnOnce() -> Box<T>, id_const: u64, eq: Option<fn(&T, &T) -> bool>) -> Value {
    let mut ids = HashMap::new();
    alloc_track::mark();
    let t = f();
    let ev = alloc_track::unmark();
    let mut m = describe(&*t);
    m.insert("id_const".into(), out::le(id_const, 4));
    m.insert("obj".into(), json!(*ids.entry((&*t as *const T).cast::<u8>() as usize).or_insert(1)));
    m.insert("allocs".into(), events_json(&ev, &mut ids));
    m.insert("as_bytes".into(), json!(catch_unwind(AssertUnwindSafe(|| t.as_bytes().len())).map(|n| n as i64).unwrap_or(-1)));
    if c["clone"].as_bool().unwrap_or(false) {
        alloc_track::mark();
        let cl = clone_dyn(&*t);
        let ev2 = alloc_track::unmark();
        let mut cm = describe(&*cl);
        // "an equal tag" also in the sense of the type's own PartialEq
        if let Some(eq) = eq {
            cm.insert("eq".into(), json!(if eq(&*cl, &*t) { 1 } else { 0 }));
        }
        let n = ids.len() as u64 + 1;
        let cid = *ids.entry((&*cl as *const T).cast::<u8>() as usize).or_insert(n);
        cm.insert("obj".into(), json!(cid));
        cm.insert("allocs".into(), events_json(&ev2, &mut ids));
        alloc_track::mark();
        drop(cl);
        let ev3 = alloc_track::unmark();
        cm.insert("drops".into(), events_json(&ev3, &mut ids));
        m.insert("clone".into(), Value::Object(cm));
    }
    alloc_track::mark();
    drop(t);
    let ev4 = alloc_track::unmark();
    m.insert("drops".into(), events_json(&ev4, &mut ids));
    out::ok(Value::Object(m))
}



pub fn dispatch(ctx: &mut Ctx, op: &str, call: &Value) -> Option<Value> {
    Some(match op {
        "construct" => construct(call),
        "new_boxed" => new_boxed_op(call),
        "b_new" => {
            ctx.bld = Some(if call["default"].as_bool().unwrap_or(false) { Builder::default() } else { Builder::new() });
            ctx.built = None;
            out::unit()
        }
        "b_set" => b_set(ctx, call),
        "b_build" => match ctx.bld.take() {
            None => out::skipped(),
            Some(b) => {
                let mut ids = HashMap::new();
                alloc_track::mark();
                let r = catch_unwind(AssertUnwindSafe(|| b.build()));
                let ev = alloc_track::unmark();
                match r {
                    Err(_) => json!({"k": "panic"}),
                    Ok(bx) => {
                        let mut m = describe(&*bx);
                        m.insert("obj".into(), json!(*ids.entry((&*bx as *const DynSizedStructure<BootInformationHeader>).cast::<u8>() as usize).or_insert(1)));
                        m.insert("allocs".into(), events_json(&ev, &mut ids));
                        ctx.built = Some(bx);
                        out::ok(Value::Object(m))
                    }
                }
            }
        },
        "b_load" => match &ctx.built {
            None => out::skipped(),
            Some(bx) => {
                let p = (&**bx as *const DynSizedStructure<BootInformationHeader>).cast::<BootInformationHeader>();
                match unsafe { BootInformation::load(p) } {
                    Ok(bi) => out::ok(json!({"total": out::num(bi.total_size()), "ntags": out::num(bi.tags().count())})),
                    Err(e) => out::err_of(&e),
                }
            }
        },
        // make the structure just built the image under test: everything that parses bytes now parses the builder's output
        "use_built" => {
            if out::arg_str(call, "which") == "header" {
                match &ctx.hbuilt {
                    None => return Some(out::skipped()),
                    Some(bx) => {
                        ctx.base = (&**bx as *const DynSizedStructure<h::Multiboot2BasicHeader>).cast::<u8>();
                        ctx.len = size_of_val(&**bx);
                    }
                }
            } else {
                match &ctx.built {
                    None => return Some(out::skipped()),
                    Some(bx) => {
                        ctx.base = (&**bx as *const DynSizedStructure<BootInformationHeader>).cast::<u8>();
                        ctx.len = size_of_val(&**bx);
                    }
                }
            }
            // "res": not the Box itself but a byte-identical copy at an address that is `res` modulo 16 (a boot
            // loader or linker places the structure anywhere 8-aligned; malloc only ever shows 0 modulo 16)
            if let Some(res) = call["res"].as_u64() {
                let mut buf = vec![0u64; ctx.len / 8 + 4];
                let p = buf.as_mut_ptr() as usize;
                let off = (res as usize + 16 - p % 16) % 16;
                unsafe { std::ptr::copy_nonoverlapping(ctx.base, (p + off) as *mut u8, ctx.len) };
                ctx.base = (p + off) as *const u8;
                ctx.copy = Some(buf);
            }
            ctx.bi = None;
            ctx.hdr = None;
            ctx.its.clear();
            out::unit()
        }
        "hb_new" => {
            let arch = if u(call, "arch") == 0 { h::HeaderTagISA::I386 } else { h::HeaderTagISA::MIPS32 };
            ctx.hbld = Some(h::Builder::new(arch));
            ctx.hbuilt = None;
            out::unit()
        }
        "hb_set" => hb_set(ctx, call),
        "hb_build" => match ctx.hbld.take() {
            None => out::skipped(),
            Some(b) => {
                let mut ids = HashMap::new();
                alloc_track::mark();
                let r = catch_unwind(AssertUnwindSafe(|| b.build()));
                let ev = alloc_track::unmark();
                match r {
                    Err(_) => json!({"k": "panic"}),
                    Ok(bx) => {
                        let mut m = describe(&*bx);
                        m.insert("obj".into(), json!(*ids.entry((&*bx as *const DynSizedStructure<h::Multiboot2BasicHeader>).cast::<u8>() as usize).or_insert(1)));
                        m.insert("allocs".into(), events_json(&ev, &mut ids));
                        ctx.hbuilt = Some(bx);
                        out::ok(Value::Object(m))
                    }
                }
            }
        },
        "hb_load" => match &ctx.hbuilt {
            None => out::skipped(),
            Some(bx) => {
                let p = (&**bx as *const DynSizedStructure<h::Multiboot2BasicHeader>).cast::<h::Multiboot2BasicHeader>();
                match unsafe { h::Multiboot2Header::load(p) } {
                    Ok(hd) => out::ok(json!({"length": out::le(hd.length() as u64, 4), "ntags": out::num(hd.iter().count())})),
                    Err(e) => out::err_of(&e),
                }
            }
        },
        _ => return None,
    })
}

fn construct(c: &Value) -> Value {
    match out::arg_str(c, "kind") {
        "cmdline" => boxed(c, || mk_cmdline(c), id_of::<CommandLineTag>()),
        "bootloader" => boxed(c, || mk_bootloader(c), id_of::<BootLoaderNameTag>()),
        "module" => boxed(c, || mk_module(c), id_of::<ModuleTag>()),
        "mmap" => boxed(c, || mk_mmap(c), id_of::<MemoryMapTag>()),
        "framebuffer" => {
            let mut v = boxed(c, || mk_framebuffer(c), id_of::<FramebufferTag>());
            // read-back through the accessor (on a second instance: boxed() has dropped the first)
            let t = mk_framebuffer(c);
            let rb = match catch_unwind(AssertUnwindSafe(|| t.buffer_type())) {
                Err(_) => json!({"k": "panic"}),
                Ok(Err(_)) => json!({"k": "err"}),
                Ok(Ok(FramebufferType::Text)) => json!({"k": "ok", "t": "text"}),
                Ok(Ok(FramebufferType::RGB { red, green, blue })) => json!({"k": "ok", "t": "rgb",
                    "v": [red.position, red.size, green.position, green.size, blue.position, blue.size]}),
                Ok(Ok(FramebufferType::Indexed { palette })) => json!({"k": "ok", "t": "indexed", "n": out::num(palette.len()),
                    "at": out::clamp(palette.as_ptr() as usize as i128 - (&*t as *const FramebufferTag).cast::<u8>() as usize as i128)}),
            };
            if v["k"] == "ok" {
                v["v"]["rb_fb"] = rb;
            }
            v
        }
        "elf" => boxed(c, || mk_elf(c), id_of::<ElfSectionsTag>()),
        "smbios" => boxed(c, || mk_smbios(c), id_of::<SmbiosTag>()),
        "network" => boxed_opt(c, || mk_network(c), id_of::<NetworkTag>(), None),
        "efi_mmap" => boxed(c, || mk_efi_mmap(c), id_of::<EFIMemoryMapTag>()),
        "custom" => boxed(c, || mk_custom(c), u(c, "typ")),
        "info_req" => boxed(c, || mk_info_req(c), hid_of::<h::InformationRequestHeaderTag>()),
        _ => out::unsupported(),
    }
}

/// new_boxed on the generic structure of each header kind (C16: layout, size patching, alloc/dealloc pairing)
fn new_boxed_op(c: &Value) -> Value {
    let slices: Vec<Odd> = c["slices"].as_array().map(|a| a.iter().map(|x| Odd::of(x.as_array().unwrap().iter().map(|b| b.as_u64().unwrap() as u8).collect())).collect()).unwrap_or_default();
    let refs: Vec<&[u8]> = slices.iter().map(|v| v.bytes()).collect();
    let typ = u(c, "typ") as u32;
    match out::arg_str(c, "h") {
        "tag" => boxed(c, || new_boxed::<DynSizedStructure<TagHeader>>(TagHeader::new(TagTypeId::new(typ), 0), &refs), typ as u64),
        "htag" => boxed(c, || new_boxed::<DynSizedStructure<h::HeaderTagHeader>>(h::HeaderTagHeader::new(h::HeaderTagType::InformationRequest, h::HeaderTagFlag::Required, 0), &refs), 1),
        "h12" => boxed(c, || new_boxed::<DynSizedStructure<Hdr12>>(Hdr12::new(typ), &refs), typ as u64),
        "h4" => boxed(c, || new_boxed::<DynSizedStructure<Hdr4>>(Hdr4::new(), &refs), 0),
        "mb" => {
            // an existing basic header (of a freshly built, tag-less header) finalised for different content
            let arch = if typ == 0 { h::HeaderTagISA::I386 } else { h::HeaderTagISA::MIPS32 };
            let base = h::Builder::new(arch).build();
            let hdr = base.header().clone();
            boxed(c, || new_boxed::<DynSizedStructure<h::Multiboot2BasicHeader>>(hdr, &refs), 0)
        }
        "dummy" => boxed(c, || new_boxed::<DummyDstTag>(DummyTestHeader::new(typ, 0), &refs), typ as u64),
        _ => out::unsupported(),
    }
}

fn b_set(ctx: &mut Ctx, c: &Value) -> Value {
    let b = match ctx.bld.take() {
        None => return out::skipped(),
        Some(b) => b,
    };
    macro_rules! put {
        ($mk:expr, $m:ident) => {{
            // a boxed tag handed to a setter: how it was allocated is part of what the constructor did
            let mut ids = HashMap::new();
            alloc_track::mark();
            let t = $mk;
            let ev = alloc_track::unmark();
            let mut d = describe(&*t);
            d.insert("obj".into(), json!(*ids.entry(raw(&*t).as_ptr() as usize).or_insert(1)));
            d.insert("allocs".into(), events_json(&ev, &mut ids));
            ctx.bld = Some(b.$m(t));
            out::ok(Value::Object(d))
        }};
    }
    macro_rules! putv {
        ($mk:expr, $m:ident) => {{
            let t = $mk;
            let d = describe(&t);
            ctx.bld = Some(b.$m(t));
            out::ok(Value::Object(d))
        }};
    }
    match out::arg_str(c, "slot") {
        "cmdline" => put!(mk_cmdline(c), cmdline),
        "bootloader" => put!(mk_bootloader(c), bootloader),
        "module" => put!(mk_module(c), add_module),
        "meminfo" => putv!(mk_meminfo(c), meminfo),
        "bootdev" => putv!(mk_bootdev(c), bootdev),
        "mmap" => put!(mk_mmap(c), mmap),
        "vbe" => putv!(mk_vbe(c), vbe),
        "framebuffer" => put!(mk_framebuffer(c), framebuffer),
        "elf" => put!(mk_elf(c), elf_sections),
        "apm" => putv!(mk_apm(c), apm),
        "efi32" => putv!(EFISdt32Tag::new(u(c, "sdt_address") as u32), efi32),
        "efi64" => putv!(EFISdt64Tag::new(u(c, "sdt_address")), efi64),
        "smbios" => put!(mk_smbios(c), add_smbios),
        "rsdpv1" => putv!(mk_rsdpv1(c), rsdpv1),
        "rsdpv2" => putv!(mk_rsdpv2(c), rsdpv2),
        "network" => put!(mk_network(c), network),
        "efi_mmap" => put!(mk_efi_mmap(c), efi_mmap),
        "efi_bs" => putv!(EFIBootServicesNotExitedTag::new(), efi_bs),
        "efi32_ih" => putv!(EFIImageHandle32Tag::new(u(c, "image_handle") as u32), efi32_ih),
        "efi64_ih" => putv!(EFIImageHandle64Tag::new(u(c, "image_handle")), efi64_ih),
        "load_base_addr" => putv!(ImageLoadPhysAddrTag::new(u(c, "load_base_addr") as u32), image_load_addr),
        "custom" => put!(mk_custom(c), add_custom_tag),
        _ => {
            ctx.bld = Some(b);
            out::unsupported()
        }
    }
}

fn hb_set(ctx: &mut Ctx, c: &Value) -> Value {
    let b = match ctx.hbld.take() {
        None => return out::skipped(),
        Some(b) => b,
    };
    macro_rules! putv {
        ($mk:expr, $m:ident) => {{
            let t = $mk;
            let d = describe(&t);
            ctx.hbld = Some(b.$m(t));
            out::ok(Value::Object(d))
        }};
    }
    match out::arg_str(c, "slot") {
        "info_req" => {
            let mut ids = HashMap::new();
            alloc_track::mark();
            let t = mk_info_req(c);
            let ev = alloc_track::unmark();
            let mut d = describe(&*t);
            d.insert("obj".into(), json!(*ids.entry(raw(&*t).as_ptr() as usize).or_insert(1)));
            d.insert("allocs".into(), events_json(&ev, &mut ids));
            ctx.hbld = Some(b.information_request_tag(t));
            out::ok(Value::Object(d))
        }
        "address" => putv!(mk_address(c), address_tag),
        "entry" => putv!(h::EntryAddressHeaderTag::new(hflag(c), u(c, "entry_addr") as u32), entry_tag),
        "console" => putv!(mk_console(c), console_tag),
        "hfb" => putv!(mk_hfb(c), framebuffer_tag),
        "module_align" => putv!(h::ModuleAlignHeaderTag::new(hflag(c)), module_align_tag),
        "hefi_bs" => putv!(h::EfiBootServiceHeaderTag::new(hflag(c)), efi_bs_tag),
        "entry_efi32" => putv!(h::EntryEfi32HeaderTag::new(hflag(c), u(c, "entry_addr") as u32), efi_32_tag),
        "entry_efi64" => putv!(h::EntryEfi64HeaderTag::new(hflag(c), u(c, "entry_addr") as u32), efi_64_tag),
        "relocatable" => putv!(mk_relocatable(c), relocatable_tag),
        _ => {
            ctx.hbld = Some(b);
            out::unsupported()
        }
    }
}
