//! Native full-domain sweeps. The expected classification comes from an interval table exported
//! from the TLA+ specification (spec/MB2TypeIds.tla); this file only interprets such tables:
//!   table = [{"lo": [4 bytes LE], "hi": [4 bytes LE], "class": "<name>", "disc": [4 bytes LE]?}, ...]
//! and compares, for every 32-bit value, the implementation's answer with the table's.

use super::conv;
use multiboot2::{MemoryAreaType, MemoryAreaTypeId, TagType, TagTypeId};
use serde_json::{json, Value};
use std::sync::atomic::{AtomicU64, Ordering};
use std::sync::Mutex;

struct Row {
    lo: u32,
    hi: u32,
    class: String,
    disc: Option<u32>,
}

fn le(v: &Value) -> u32 {
    v.as_array().unwrap().iter().enumerate().fold(0u32, |a, (i, b)| a | ((b.as_u64().unwrap() as u32) << (8 * i)))
}

fn load_table(path: &str, name: &str) -> Vec<Row> {
    let v: Value = serde_json::from_str(&std::fs::read_to_string(path).expect("table file")).expect("table json");
    v[name]
        .as_array()
        .expect("table")
        .iter()
        .map(|r| Row { lo: le(&r["lo"]), hi: le(&r["hi"]), class: r["class"].as_str().unwrap().to_string(), disc: r.get("disc").map(le) })
        .collect()
}

fn tag_variant(t: TagType) -> &'static str {
    match t {
        TagType::End => "End",
        TagType::Cmdline => "Cmdline",
        TagType::BootLoaderName => "BootLoaderName",
        TagType::Module => "Module",
        TagType::BasicMeminfo => "BasicMeminfo",
        TagType::Bootdev => "Bootdev",
        TagType::Mmap => "Mmap",
        TagType::Vbe => "Vbe",
        TagType::Framebuffer => "Framebuffer",
        TagType::ElfSections => "ElfSections",
        TagType::Apm => "Apm",
        TagType::Efi32 => "Efi32",
        TagType::Efi64 => "Efi64",
        TagType::Smbios => "Smbios",
        TagType::AcpiV1 => "AcpiV1",
        TagType::AcpiV2 => "AcpiV2",
        TagType::Network => "Network",
        TagType::EfiMmap => "EfiMmap",
        TagType::EfiBs => "EfiBs",
        TagType::Efi32Ih => "Efi32Ih",
        TagType::Efi64Ih => "Efi64Ih",
        TagType::LoadBaseAddr => "LoadBaseAddr",
        TagType::Custom(_) => "Custom",
    }
}

fn mem_variant(t: MemoryAreaType) -> &'static str {
    match t {
        MemoryAreaType::Available => "Available",
        MemoryAreaType::Reserved => "Reserved",
        MemoryAreaType::AcpiAvailable => "AcpiAvailable",
        MemoryAreaType::ReservedHibernate => "ReservedHibernate",
        MemoryAreaType::Defective => "Defective",
        MemoryAreaType::Custom(_) => "Custom",
    }
}

/// what the implementation says about x, reduced to (class, disc, all identities hold)
type Probe = fn(u32) -> (&'static str, Option<u32>, bool);

fn probe_for(which: &str) -> Probe {
    match which {
        "tag_type" => probe_tag_type,
        "mem_area_type" => probe_mem_area_type,
        "elf_type" => probe_elf_type,
        _ => panic!("unknown sweep"),
    }
}

fn probe_tag_type(x: u32) -> (&'static str, Option<u32>, bool) {
    let t = TagType::from(x);
    let id = TagTypeId::from(x);
    let ok = u32::from(t) == x
        && t.val() == x
        && u32::from(id) == x
        && TagType::from(id) == t
        && u32::from(TagTypeId::from(t)) == x
        && id == x
        && x == id
        && t == x
        && x == t
        && t == id
        && id == t
        && !(id == x.wrapping_add(1))
        && !(t == x.wrapping_add(1))
        && !(t == TagTypeId::from(x ^ 0x8000_0000))
        && TagType::Custom(x) == id
        && id == TagType::Custom(x)
        && TagType::Custom(x) == x
        && u32::from(TagType::Custom(x)) == x
        && match t {
            TagType::Custom(c) => c == x,
            _ => true,
        };
    (tag_variant(t), None, ok)
}

fn probe_mem_area_type(x: u32) -> (&'static str, Option<u32>, bool) {
    let id = MemoryAreaTypeId::from(x);
    let t = MemoryAreaType::from(id);
    let ok = u32::from(id) == x
        && u32::from(MemoryAreaTypeId::from(t)) == x
        && id == t
        && t == id
        && !(MemoryAreaTypeId::from(x.wrapping_add(1)) == t)
        && id == MemoryAreaType::Custom(x)
        && MemoryAreaType::Custom(x) == id
        && match t {
            MemoryAreaType::Custom(c) => c == x,
            _ => true,
        };
    (mem_variant(t), None, ok)
}

fn probe_elf_type(x: u32) -> (&'static str, Option<u32>, bool) {
    // a panic of the library (or of the probe's own consistency assertions) is a mismatch, not a tool error
    match std::panic::catch_unwind(|| conv::elf_class(x)) {
        Err(_) => ("panic", None, false),
        Ok(None) => ("unused", None, true),
        Ok(Some(d)) => ("used", Some(d), true),
    }
}

/// Arithmetic laws stated by the properties themselves, over the full domain:
///   round8:   r = increase_to_alignment(n) is the least multiple of 8 that is >= n        (C14)
///   checksum: magic + arch + length + calc_checksum(magic, arch, length) = 0 (mod 2^32)    (C10)
fn law_sweep(which: &str, stride: u64) {
    use multiboot2_header::{HeaderTagISA, Multiboot2Header};
    let threads = std::thread::available_parallelism().map(|n| n.get()).unwrap_or(8) as u64;
    let bad = AtomicU64::new(0);
    let checked = AtomicU64::new(0);
    let samples: Mutex<Vec<Value>> = Mutex::new(Vec::new());
    let magics: [u32; 3] = [multiboot2_header::MAGIC, 0, 0xFFFF_FFFF];
    std::thread::scope(|s| {
        for t in 0..threads {
            let (bad, checked, samples, magics) = (&bad, &checked, &samples, &magics);
            s.spawn(move || {
                let chunk = (1u64 << 32) / threads;
                let (from, to) = (t * chunk, if t == threads - 1 { 1u64 << 32 } else { (t + 1) * chunk });
                let mut n = 0u64;
                let mut x = from;
                while x < to {
                    let ok = match which {
                        "round8" => {
                            let r = multiboot2_common::increase_to_alignment(x as usize) as u64;
                            r % 8 == 0 && r >= x && r < x + 8
                        }
                        _ => {
                            let l = x as u32;
                            let mut ok = true;
                            for arch in [HeaderTagISA::I386, HeaderTagISA::MIPS32] {
                                // the first magic for every length, the others on a sub-grid
                                for (i, m) in magics.iter().enumerate() {
                                    if i > 0 && x % 4099 != 0 {
                                        continue;
                                    }
                                    let c = std::panic::catch_unwind(|| Multiboot2Header::calc_checksum(*m, arch, l));
                                    ok &= match c {
                                        Ok(c) => m.wrapping_add(arch as u32).wrapping_add(l).wrapping_add(c) == 0,
                                        Err(_) => false,
                                    };
                                }
                            }
                            ok
                        }
                    };
                    n += 1;
                    if !ok {
                        let b = bad.fetch_add(1, Ordering::Relaxed);
                        if b < 5 {
                            samples.lock().unwrap().push(json!({"x": x}));
                        }
                    }
                    x += stride;
                    // hopeless: the verdict is clear, do not spend the time limit on counting
                    if bad.load(Ordering::Relaxed) > 100_000 {
                        break;
                    }
                }
                checked.fetch_add(n, Ordering::Relaxed);
            });
        }
    });
    println!(
        "{}",
        json!({"sweep": which, "checked": checked.load(Ordering::Relaxed), "mismatches": bad.load(Ordering::Relaxed), "samples": *samples.lock().unwrap()})
    );
}

pub fn main(args: &[String]) {
    // sweep <which> <table.json> <table name> [stride]      |      sweep round8|checksum - - [stride]
    if args[0] == "round8" || args[0] == "checksum" {
        std::panic::set_hook(Box::new(|_| {}));
        law_sweep(&args[0], args.get(3).map(|s| s.parse().unwrap()).unwrap_or(1));
        return;
    }
    std::panic::set_hook(Box::new(|_| {}));
    let which = args[0].clone();
    let rows = load_table(&args[1], &args[2]);
    let stride: u64 = args.get(3).map(|s| s.parse().unwrap()).unwrap_or(1);
    // the table must partition 0..2^32-1
    let mut next: u64 = 0;
    for r in &rows {
        assert_eq!(r.lo as u64, next, "table is not a partition");
        next = r.hi as u64 + 1;
    }
    assert_eq!(next, 1u64 << 32, "table is not a partition");
    let threads = std::thread::available_parallelism().map(|n| n.get()).unwrap_or(8) as u64;
    let bad = AtomicU64::new(0);
    let checked = AtomicU64::new(0);
    let samples: Mutex<Vec<Value>> = Mutex::new(Vec::new());
    std::thread::scope(|s| {
        for t in 0..threads {
            let (rows, bad, checked, samples) = (&rows, &bad, &checked, &samples);
            let probe = probe_for(&which);
            s.spawn(move || {
                let chunk = (1u64 << 32) / threads;
                let (from, to) = (t * chunk, if t == threads - 1 { 1u64 << 32 } else { (t + 1) * chunk });
                let mut ri = rows.iter().position(|r| (r.lo as u64) <= from && from <= r.hi as u64).unwrap();
                let mut n = 0u64;
                let mut x = from;
                while x < to {
                    while (rows[ri].hi as u64) < x {
                        ri += 1;
                    }
                    let row = &rows[ri];
                    let (class, disc, ok) = probe(x as u32);
                    n += 1;
                    if class != row.class.as_str() || !ok || (row.disc.is_some() && disc != row.disc) {
                        let b = bad.fetch_add(1, Ordering::Relaxed);
                        if b < 5 {
                            samples.lock().unwrap().push(json!({"x": x, "impl_class": class, "spec_class": row.class, "impl_disc": disc, "spec_disc": row.disc, "identities": ok}));
                        }
                    }
                    x += stride;
                    // hopeless: the verdict is clear, do not spend the time limit on counting
                    if bad.load(Ordering::Relaxed) > 100_000 {
                        break;
                    }
                }
                checked.fetch_add(n, Ordering::Relaxed);
            });
        }
    });
    println!(
        "{}",
        json!({"sweep": which, "checked": checked.load(Ordering::Relaxed), "mismatches": bad.load(Ordering::Relaxed), "samples": *samples.lock().unwrap()})
    );
}
