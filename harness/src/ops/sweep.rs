//! Native full-domain sweeps (filled in with C10/C14/C20).
pub fn main(_args: &[String]) {
    eprintln!("no sweep implemented yet");
    std::process::exit(2);
}
