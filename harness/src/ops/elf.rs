//! ELF section views (C19).
use crate::out;
use multiboot2::ElfSection;
use serde_json::{json, Value};

pub fn section_json(s: &ElfSection<'static>, ext: Option<(usize, usize)>) -> Value {
    let mut v = section_json0(s);
    if let Some((addr, _len)) = ext {
        v["name"] = match s.name() {
            Ok(n) => out::ok(json!({"eat": out::clamp(n.as_ptr() as usize as i128 - addr as i128), "len": out::num(n.len())})),
            Err(_) => out::err("Utf8"),
        };
    }
    v
}

fn section_json0(s: &ElfSection<'static>) -> Value {
    json!({
        "raw": out::le(s.section_type_raw() as u64, 4),
        "typ": out::le(s.section_type() as u32 as u64, 4),
        "flags": out::le(s.flags().bits(), 8),
        "addr": out::le(s.start_address(), 8),
        "size": out::le(s.size(), 8),
        "addralign": out::le(s.addralign(), 8),
        "end": match std::panic::catch_unwind(|| s.end_address()) { Ok(e) => out::val(e, 8), Err(_) => serde_json::json!({"k": "panic"}) },
        "alloc": if s.is_allocated() { 1 } else { 0 },
    })
}
