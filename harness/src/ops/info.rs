//! multiboot2: boot information loading, walking, typed getters, field decoding.
//! Pure API binding: which accessor a (kind, field) name stands for and how wide
//! its return type is. No expected values.

use super::{Ctx, It};
use crate::out;
use multiboot2::{BootInformation, BootInformationHeader, FramebufferType, MaybeDynSized};
use serde_json::{json, Value};
use std::mem::size_of_val;

type Bi = &'static BootInformation<'static>;

pub fn dispatch(ctx: &mut Ctx, op: &str, call: &Value) -> Option<Value> {
    Some(match op {
        "load" => load(ctx, call),
        "tags" | "module_tags" | "efi_areas" | "elf_sections" | "elf_sections_deprecated" => {
            let id = out::arg_u64(call, "it");
            let bi = match ctx.bi_ref() {
                None => return Some(out::skipped()),
                Some(bi) => bi,
            };
            // "via": "cast" - the other public route to the typed tag: walk the tags, cast the first one of the type
            let via_cast = out::arg_str(call, "via") == "cast";
            let first_of = |ty: u32| bi.tags().find(|t| u32::from(t.header().typ) == ty);
            let it = match op {
                "tags" => It::Tags(bi.tags()),
                "module_tags" => It::Mods(bi.module_tags()),
                "efi_areas" if via_cast => match first_of(17) {
                    None => return Some(out::none()),
                    Some(t) => It::Efi(Box::new(t.cast::<multiboot2::EFIMemoryMapTag>().memory_areas())),
                },
                "elf_sections" if via_cast => match first_of(9) {
                    None => return Some(out::none()),
                    Some(t) => It::Elf(t.cast::<multiboot2::ElfSectionsTag>().sections()),
                },
                "efi_areas" => match bi.efi_memory_map_tag() {
                    None => return Some(out::none()),
                    Some(t) => It::Efi(Box::new(t.memory_areas())),
                },
                "elf_sections" => match bi.elf_sections_tag() {
                    None => return Some(out::none()),
                    Some(t) => It::Elf(t.sections()),
                },
                _ => {
                    #[allow(deprecated)]
                    match bi.elf_sections() {
                        None => return Some(out::none()),
                        Some(i) => It::Elf(i),
                    }
                }
            };
            ctx.its.insert(id, it);
            out::unit()
        }
        // sections of ALL ELF-sections tags of the region compared with one another through the value type's own
        // PartialEq / Ord / Hash (both orders): how many pairs compare equal, and whether == agrees with cmp and hash
        "elf_cmp" => {
            use std::hash::{Hash, Hasher};
            let bi = match ctx.bi_ref() {
                None => return Some(out::skipped()),
                Some(b) => b,
            };
            let mut secs: Vec<multiboot2::ElfSection> = Vec::new();
            for t in bi.tags() {
                if u32::from(t.header().typ) == 9 {
                    secs.extend(t.cast::<multiboot2::ElfSectionsTag>().sections());
                }
            }
            let h = |s: &multiboot2::ElfSection| {
                let mut st = std::collections::hash_map::DefaultHasher::new();
                s.hash(&mut st);
                st.finish()
            };
            let (mut eq, mut consistent) = (0u64, true);
            for a in &secs {
                for b in &secs {
                    let e = a == b;
                    eq += e as u64;
                    consistent &= e == (a.cmp(b) == std::cmp::Ordering::Equal) && (!e || h(a) == h(b));
                }
            }
            json!({"k": "cmp", "n": out::num(secs.len()), "eq": out::num(eq as usize), "consistent": if consistent { 1 } else { 0 }})
        }
        "next" => next(ctx, call),
        "len" => {
            let id = out::arg_u64(call, "it");
            match ctx.its.get(&id) {
                None => out::skipped(),
                Some(It::Efi(i)) => out::val(i.len_() as u64, 8),
                Some(It::Elf(i)) => out::val(i.len() as u64, 8),
                Some(_) => out::unsupported(),
            }
        }
        "size_hint" => {
            let id = out::arg_u64(call, "it");
            let sh = match ctx.its.get(&id) {
                None => return Some(out::skipped()),
                Some(It::Efi(i)) => i.size_hint_(),
                Some(It::Elf(i)) => i.size_hint(),
                Some(It::Tags(i)) => i.size_hint(),
                Some(It::Mods(i)) => i.size_hint(),
                Some(It::HTags(i)) => i.size_hint(),
                Some(It::Dummy(i)) => i.size_hint(),
            };
            json!({"k": "hint", "lo": out::le(sh.0 as u64, 8),
                   "hi": match sh.1 { None => out::none(), Some(h) => out::some(out::le(h as u64, 8)) }})
        }
        // Iterator trait methods other than next(): a type may override them, so they are observed separately
        "nth" => {
            let id = out::arg_u64(call, "it");
            let n = out::arg_u64(call, "n") as usize;
            let base = ctx.base;
            let off = |p: *const u8| json!(out::clamp(p as usize as i128 - base as usize as i128));
            match ctx.its.get_mut(&id) {
                None => out::skipped(),
                Some(It::Tags(it)) => match it.nth(n) {
                    None => out::none(),
                    Some(t) => out::some(json!({"at": off((t as *const multiboot2::DynSizedStructure<multiboot2::TagHeader>).cast()),
                                                "sv": out::num(size_of_val(t))})),
                },
                Some(It::HTags(it)) => match it.nth(n) {
                    None => out::none(),
                    Some(t) => out::some(json!({"at": off((t as *const multiboot2_common::DynSizedStructure<multiboot2_header::HeaderTagHeader>).cast()),
                                                "sv": out::num(size_of_val(t))})),
                },
                Some(It::Elf(it)) => match it.nth(n) {
                    None => out::none(),
                    Some(sec) => out::some(super::elf::section_json(&sec, None)),
                },
                Some(It::Efi(it)) => {
                    // through the type-erased handle: nth via the trait object's own next() would hide an override
                    match it.nth_(n) {
                        None => out::none(),
                        Some(d) => out::some(json!({"at": off((d as *const multiboot2::EFIMemoryDesc).cast()), "sv": 40})),
                    }
                }
                Some(_) => out::unsupported(),
            }
        }
        // for_each on a copy: the offsets of everything the iterator still visits
        "for_each" => {
            let id = out::arg_u64(call, "it");
            let base = ctx.base as usize as i128;
            let mut v: Vec<i64> = Vec::new();
            match ctx.its.get(&id) {
                None => return Some(out::skipped()),
                Some(It::Tags(it)) => it.clone().for_each(|t| v.push(out::clamp((t as *const multiboot2::DynSizedStructure<multiboot2::TagHeader>).cast::<u8>() as usize as i128 - base))),
                Some(It::HTags(it)) => it.clone().for_each(|t| v.push(out::clamp((t as *const multiboot2_common::DynSizedStructure<multiboot2_header::HeaderTagHeader>).cast::<u8>() as usize as i128 - base))),
                Some(It::Mods(it)) => it.clone().for_each(|t| v.push(out::clamp((t as *const multiboot2::ModuleTag).cast::<u8>() as usize as i128 - base))),
                Some(_) => return Some(out::unsupported()),
            }
            json!({"k": "list", "v": v})
        }
        "count" => {
            let id = out::arg_u64(call, "it");
            match ctx.its.get(&id) {
                None => out::skipped(),
                Some(It::Tags(it)) => out::val(it.clone().count() as u64, 8),
                Some(It::HTags(it)) => out::val(it.clone().count() as u64, 8),
                Some(It::Mods(it)) => out::val(it.clone().count() as u64, 8),
                Some(It::Efi(it)) => out::val(it.count_() as u64, 8),
                Some(It::Elf(it)) => out::val(it.clone().count() as u64, 8),
                Some(_) => out::unsupported(),
            }
        }
        // last() of a copy of the iterator (the iterator itself is left as it is)
        "last" => {
            let id = out::arg_u64(call, "it");
            let base = ctx.base;
            let off = |p: *const u8| json!(out::clamp(p as usize as i128 - base as usize as i128));
            match ctx.its.get(&id) {
                None => out::skipped(),
                Some(It::Tags(it)) => match it.clone().last() {
                    None => out::none(),
                    Some(t) => out::some(json!({"at": off((t as *const multiboot2::DynSizedStructure<multiboot2::TagHeader>).cast()), "sv": out::num(size_of_val(t))})),
                },
                Some(It::HTags(it)) => match it.clone().last() {
                    None => out::none(),
                    Some(t) => out::some(json!({"at": off((t as *const multiboot2_common::DynSizedStructure<multiboot2_header::HeaderTagHeader>).cast()), "sv": out::num(size_of_val(t))})),
                },
                Some(It::Efi(it)) => match it.last_() {
                    None => out::none(),
                    Some(d) => out::some(json!({"at": off((d as *const multiboot2::EFIMemoryDesc).cast()), "sv": 40})),
                },
                Some(It::Elf(it)) => match it.clone().last() {
                    None => out::none(),
                    Some(sec) => out::some(super::elf::section_json(&sec, None)),
                },
                Some(_) => out::unsupported(),
            }
        }
        // next() of a tag iterator, then DynSizedStructure::cast to an arbitrary (possibly unrelated) tag type
        "cast_item" => {
            let id = out::arg_u64(call, "it");
            let t = match ctx.its.get_mut(&id) {
                None => return Some(out::skipped()),
                Some(It::Tags(it)) => match it.next() {
                    None => return Some(out::none()),
                    Some(t) => t,
                },
                Some(_) => return Some(out::unsupported()),
            };
            macro_rules! c {
                ($ty:ty) => {
                    out::some(refv(ctx, t.cast::<$ty>()))
                };
            }
            use multiboot2::*;
            match out::arg_str(call, "to") {
                "end" => c!(EndTag), "cmdline" => c!(CommandLineTag), "bootloader" => c!(BootLoaderNameTag), "module" => c!(ModuleTag),
                "meminfo" => c!(BasicMemoryInfoTag), "bootdev" => c!(BootdevTag), "mmap" => c!(MemoryMapTag), "vbe" => c!(VBEInfoTag),
                "framebuffer" => c!(FramebufferTag), "elf" => c!(ElfSectionsTag), "apm" => c!(ApmTag), "efi32" => c!(EFISdt32Tag),
                "efi64" => c!(EFISdt64Tag), "smbios" => c!(SmbiosTag), "rsdpv1" => c!(RsdpV1Tag), "rsdpv2" => c!(RsdpV2Tag),
                "network" => c!(NetworkTag), "efi_mmap" => c!(EFIMemoryMapTag), "efi_bs" => c!(EFIBootServicesNotExitedTag),
                "efi32_ih" => c!(EFIImageHandle32Tag), "efi64_ih" => c!(EFIImageHandle64Tag), "load_base_addr" => c!(ImageLoadPhysAddrTag),
                "generic" => c!(DynSizedStructure<TagHeader>),
                _ => out::unsupported(),
            }
        }
        "clone" => {
            let id = out::arg_u64(call, "it");
            let to = out::arg_u64(call, "to");
            let c = match ctx.its.get(&id) {
                None => return Some(out::skipped()),
                Some(It::Tags(i)) => It::Tags(i.clone()),
                Some(It::Mods(i)) => It::Mods(i.clone()),
                Some(It::Efi(i)) => It::Efi(i.clone_()),
                Some(It::Elf(i)) => It::Elf(i.clone()),
                Some(It::HTags(i)) => It::HTags(i.clone()),
                Some(It::Dummy(i)) => It::Dummy(i.clone()),
            };
            ctx.its.insert(to, c);
            out::unit()
        }
        "get" => match ctx.bi_ref() {
            None => out::skipped(),
            Some(bi) => get(ctx, bi, out::arg_str(call, "kind")),
        },
        "field" => match ctx.bi_ref() {
            None => out::skipped(),
            Some(bi) => field(ctx, bi, out::arg_str(call, "kind"), out::arg_str(call, "f")),
        },
        "str" => match ctx.bi_ref() {
            None => out::skipped(),
            Some(bi) => string(ctx, bi, out::arg_str(call, "kind")),
        },
        "area" => match ctx.bi_ref() {
            None => out::skipped(),
            Some(bi) => area(ctx, bi, out::arg_u64(call, "i") as usize, out::arg_str(call, "f")),
        },
        "dbg" => match ctx.bi_ref() {
            None => out::skipped(),
            Some(bi) => dbg(ctx, bi, out::arg_str(call, "what"), call),
        },
        _ => return None,
    })
}

fn load(ctx: &mut Ctx, call: &Value) -> Value {
    let ptr = if call["null"].as_bool().unwrap_or(false) {
        std::ptr::null()
    } else {
        ctx.base.cast::<BootInformationHeader>()
    };
    ctx.bi = None;
    match unsafe { BootInformation::load(ptr) } {
        Ok(bi) => {
            let base = ctx.base as usize as i128;
            let v = json!({
                "start": out::clamp(bi.start_address() as i128 - base),
                "end": out::clamp(bi.end_address() as i128 - base),
                "ptr": ctx.off(bi.as_ptr()),
                "total": out::num(bi.total_size()),
            });
            ctx.bi = Some(bi);
            out::ok(v)
        }
        Err(e) => out::err_of(&e),
    }
}

/// reference to a (possibly dynamically sized) view: offset and in-memory size
fn refv<T: ?Sized>(ctx: &Ctx, t: &T) -> Value {
    json!({"at": ctx.off(t as *const T), "sv": out::num(size_of_val(t))})
}

fn slicev<T>(ctx: &Ctx, s: &[T]) -> Value {
    json!({"k": "ref", "at": ctx.off(s.as_ptr()), "n": out::num(s.len()), "len": out::num(size_of_val(s))})
}

fn opt_ref<T: ?Sized>(ctx: &Ctx, o: Option<&T>) -> Value {
    match o {
        None => out::none(),
        Some(t) => out::some(refv(ctx, t)),
    }
}

fn get(ctx: &Ctx, bi: Bi, kind: &str) -> Value {
    match kind {
        "apm" => opt_ref(ctx, bi.apm_tag()),
        "meminfo" => opt_ref(ctx, bi.basic_memory_info_tag()),
        "bootloader" => opt_ref(ctx, bi.boot_loader_name_tag()),
        "bootdev" => opt_ref(ctx, bi.bootdev_tag()),
        "cmdline" => opt_ref(ctx, bi.command_line_tag()),
        "efi_bs" => opt_ref(ctx, bi.efi_bs_not_exited_tag()),
        "efi_mmap" => opt_ref(ctx, bi.efi_memory_map_tag()),
        "efi32" => opt_ref(ctx, bi.efi_sdt32_tag()),
        "efi64" => opt_ref(ctx, bi.efi_sdt64_tag()),
        "efi32_ih" => opt_ref(ctx, bi.efi_ih32_tag()),
        "efi64_ih" => opt_ref(ctx, bi.efi_ih64_tag()),
        "elf" => opt_ref(ctx, bi.elf_sections_tag()),
        "framebuffer" => match bi.framebuffer_tag() {
            None => out::none(),
            Some(Ok(t)) => out::some(out::ok(refv(ctx, t))),
            Some(Err(e)) => out::some(unknown_fb(&e)),
        },
        "load_base_addr" => opt_ref(ctx, bi.load_base_addr_tag()),
        "mmap" => opt_ref(ctx, bi.memory_map_tag()),
        "network" => opt_ref(ctx, bi.network_tag()),
        "rsdpv1" => opt_ref(ctx, bi.rsdp_v1_tag()),
        "rsdpv2" => opt_ref(ctx, bi.rsdp_v2_tag()),
        "smbios" => opt_ref(ctx, bi.smbios_tag()),
        "vbe" => opt_ref(ctx, bi.vbe_info_tag()),
        "end" => opt_ref(ctx, bi.get_tag::<multiboot2::EndTag>()),
        "module" => opt_ref(ctx, bi.get_tag::<multiboot2::ModuleTag>()),
        _ => out::unsupported(),
    }
}

/// The error type is not exported; the byte it carries is the last integer of its text.
fn unknown_fb<E: std::fmt::Display + std::fmt::Debug>(e: &E) -> Value {
    let text = format!("{e} {e:?}");
    let mut best: Option<u64> = None;
    let mut cur = String::new();
    for ch in text.chars().chain(std::iter::once(' ')) {
        if ch.is_ascii_digit() {
            cur.push(ch);
        } else if !cur.is_empty() {
            if best.is_none() {
                best = cur.parse().ok();
            }
            cur.clear();
        }
    }
    match best {
        Some(b) if b < 256 => json!({"k": "err", "e": "Unknown", "v": [b]}),
        _ => json!({"k": "err", "e": "Unknown", "v": []}),
    }
}

macro_rules! tag_or_none {
    ($e:expr) => {
        match $e {
            None => return out::none(),
            Some(t) => t,
        }
    };
}

fn hdr_field<T: MaybeDynSized<Header = multiboot2::TagHeader> + ?Sized>(ctx: &Ctx, t: &T, f: &str) -> Option<Value> {
    match f {
        "typ" => Some(out::val(u32::from(t.header().typ) as u64, 4)),
        "size" => Some(out::val(t.header().size as u64, 4)),
        // the generic byte views every typed view offers through MaybeDynSized
        "as_bytes" => {
            let b = t.as_bytes();
            Some(json!({"k": "ref", "at": ctx.off(b.as_ptr()), "n": out::num(b.len()), "len": out::num(b.len())}))
        }
        "trait_payload" => Some(slicev(ctx, MaybeDynSized::payload(t))),
        "as_ptr" => Some(json!({"k": "ref", "at": ctx.off(t.as_ptr()), "n": 0, "len": 0})),
        _ => None,
    }
}

fn utf8res(ctx: &Ctx, r: Result<&str, std::str::Utf8Error>) -> Value {
    match r {
        Ok(s) => out::ok(json!({"at": ctx.off(s.as_ptr()), "len": out::num(s.len())})),
        Err(_) => out::err("Utf8"),
    }
}

fn field(ctx: &Ctx, bi: Bi, kind: &str, f: &str) -> Value {
    macro_rules! common {
        ($t:expr) => {
            if let Some(v) = hdr_field(ctx, $t, f) {
                return v;
            }
        };
    }
    match kind {
        "apm" => {
            let t = tag_or_none!(bi.apm_tag());
            common!(t);
            match f {
                "version" => out::val(t.version() as u64, 2),
                "cseg" => out::val(t.cseg() as u64, 2),
                "offset" => out::val(t.offset() as u64, 4),
                "cset_16" => out::val(t.cset_16() as u64, 2),
                "dseg" => out::val(t.dseg() as u64, 2),
                "flags" => out::val(t.flags() as u64, 2),
                "cseg_len" => out::val(t.cseg_len() as u64, 2),
                "cseg_16_len" => out::val(t.cseg_16_len() as u64, 2),
                "dseg_len" => out::val(t.dseg_len() as u64, 2),
                _ => out::unsupported(),
            }
        }
        "meminfo" => {
            let t = tag_or_none!(bi.basic_memory_info_tag());
            common!(t);
            match f {
                "memory_lower" => out::val(t.memory_lower() as u64, 4),
                "memory_upper" => out::val(t.memory_upper() as u64, 4),
                _ => out::unsupported(),
            }
        }
        "bootdev" => {
            let t = tag_or_none!(bi.bootdev_tag());
            common!(t);
            match f {
                "biosdev" => out::val(t.biosdev() as u64, 4),
                "slice" => out::val(t.slice() as u64, 4),
                "part" => out::val(t.part() as u64, 4),
                _ => out::unsupported(),
            }
        }
        "bootloader" => {
            let t = tag_or_none!(bi.boot_loader_name_tag());
            common!(t);
            match f {
                "typ()" => out::val(u32::from(t.typ()) as u64, 4),
                "size()" => out::val(t.size() as u64, 8),
                _ => out::unsupported(),
            }
        }
        "cmdline" => {
            let t = tag_or_none!(bi.command_line_tag());
            common!(t);
            out::unsupported()
        }
        "efi32" => {
            let t = tag_or_none!(bi.efi_sdt32_tag());
            common!(t);
            match f {
                "sdt_address" => out::val(t.sdt_address() as u64, 8),
                _ => out::unsupported(),
            }
        }
        "efi64" => {
            let t = tag_or_none!(bi.efi_sdt64_tag());
            common!(t);
            match f {
                "sdt_address" => out::val(t.sdt_address() as u64, 8),
                _ => out::unsupported(),
            }
        }
        "efi32_ih" => {
            let t = tag_or_none!(bi.efi_ih32_tag());
            common!(t);
            match f {
                "image_handle" => out::val(t.image_handle() as u64, 8),
                _ => out::unsupported(),
            }
        }
        "efi64_ih" => {
            let t = tag_or_none!(bi.efi_ih64_tag());
            common!(t);
            match f {
                "image_handle" => out::val(t.image_handle() as u64, 8),
                _ => out::unsupported(),
            }
        }
        "efi_bs" => {
            let t = tag_or_none!(bi.efi_bs_not_exited_tag());
            common!(t);
            out::unsupported()
        }
        "load_base_addr" => {
            let t = tag_or_none!(bi.load_base_addr_tag());
            common!(t);
            match f {
                "load_base_addr" => out::val(t.load_base_addr() as u64, 4),
                _ => out::unsupported(),
            }
        }
        "module" => {
            let t = tag_or_none!(bi.get_tag::<multiboot2::ModuleTag>());
            common!(t);
            match f {
                "start_address" => out::val(t.start_address() as u64, 4),
                "end_address" => out::val(t.end_address() as u64, 4),
                "module_size" => out::val(t.module_size() as u64, 4),
                _ => out::unsupported(),
            }
        }
        "mmap" => {
            let t = tag_or_none!(bi.memory_map_tag());
            common!(t);
            match f {
                "entry_size" => out::val(t.entry_size() as u64, 4),
                "entry_version" => out::val(t.entry_version() as u64, 4),
                "memory_areas" => slicev(ctx, t.memory_areas()),
                _ => out::unsupported(),
            }
        }
        "smbios" => {
            let t = tag_or_none!(bi.smbios_tag());
            common!(t);
            match f {
                "major" => out::val(t.major() as u64, 1),
                "minor" => out::val(t.minor() as u64, 1),
                "tables" => slicev(ctx, t.tables()),
                _ => out::unsupported(),
            }
        }
        "elf" => {
            let t = tag_or_none!(bi.elf_sections_tag());
            common!(t);
            match f {
                "number_of_sections" => out::val(t.number_of_sections() as u64, 4),
                "entry_size" => out::val(t.entry_size() as u64, 4),
                "shndx" => out::val(t.shndx() as u64, 4),
                _ => out::unsupported(),
            }
        }
        "efi_mmap" => {
            let t = tag_or_none!(bi.efi_memory_map_tag());
            common!(t);
            out::unsupported()
        }
        "network" => {
            let t = tag_or_none!(bi.network_tag());
            common!(t);
            match f {
                "payload" => slicev(ctx, MaybeDynSized::payload(t)),
                _ => out::unsupported(),
            }
        }
        "framebuffer" => {
            let t = match tag_or_none!(bi.framebuffer_tag()) {
                Ok(t) => t,
                Err(e) => return unknown_fb(&e),
            };
            common!(t);
            match f {
                "address" => out::val(t.address(), 8),
                "pitch" => out::val(t.pitch() as u64, 4),
                "width" => out::val(t.width() as u64, 4),
                "height" => out::val(t.height() as u64, 4),
                "bpp" => out::val(t.bpp() as u64, 1),
                "buffer_type" => match t.buffer_type() {
                    Err(e) => unknown_fb(&e),
                    Ok(FramebufferType::Text) => out::ok(json!({"t": "text"})),
                    Ok(FramebufferType::RGB { red, green, blue }) => out::ok(json!({"t": "rgb",
                        "v": [red.position, red.size, green.position, green.size, blue.position, blue.size]})),
                    Ok(FramebufferType::Indexed { palette }) => out::ok(json!({"t": "indexed",
                        "at": ctx.off(palette.as_ptr()), "n": out::num(palette.len()), "len": out::num(size_of_val(palette))})),
                },
                _ => out::unsupported(),
            }
        }
        "rsdpv1" => {
            let t = tag_or_none!(bi.rsdp_v1_tag());
            common!(t);
            match f {
                "signature" => utf8res(ctx, t.signature()),
                "oem_id" => utf8res(ctx, t.oem_id()),
                "revision" => out::val(t.revision() as u64, 1),
                "rsdt_address" => out::val(t.rsdt_address() as u64, 8),
                "checksum_is_valid" => out::boolean(t.checksum_is_valid()),
                _ => out::unsupported(),
            }
        }
        "rsdpv2" => {
            let t = tag_or_none!(bi.rsdp_v2_tag());
            common!(t);
            match f {
                "signature" => utf8res(ctx, t.signature()),
                "oem_id" => utf8res(ctx, t.oem_id()),
                "revision" => out::val(t.revision() as u64, 1),
                "xsdt_address" => out::val(t.xsdt_address() as u64, 8),
                "ext_checksum" => out::val(t.ext_checksum() as u64, 1),
                "checksum_is_valid" => out::boolean(t.checksum_is_valid()),
                _ => out::unsupported(),
            }
        }
        "vbe" => {
            let t = tag_or_none!(bi.vbe_info_tag());
            common!(t);
            vbe_field(t, f)
        }
        "end" => {
            let t = tag_or_none!(bi.get_tag::<multiboot2::EndTag>());
            common!(t);
            out::unsupported()
        }
        _ => out::unsupported(),
    }
}

fn vbe_field(t: &multiboot2::VBEInfoTag, f: &str) -> Value {
    let ci = t.control_info();
    let mi = t.mode_info();
    match f {
        "mode" => out::val(t.mode() as u64, 2),
        "interface_segment" => out::val(t.interface_segment() as u64, 2),
        "interface_offset" => out::val(t.interface_offset() as u64, 2),
        "interface_length" => out::val(t.interface_length() as u64, 2),
        "ci.signature" => out::valb(&{ ci.signature }),
        "ci.version" => out::val({ ci.version } as u64, 2),
        "ci.oem_string_ptr" => out::val({ ci.oem_string_ptr } as u64, 4),
        "ci.capabilities" => out::val({ ci.capabilities }.bits() as u64, 4),
        "ci.mode_list_ptr" => out::val({ ci.mode_list_ptr } as u64, 4),
        "ci.total_memory" => out::val({ ci.total_memory } as u64, 2),
        "ci.oem_software_revision" => out::val({ ci.oem_software_revision } as u64, 2),
        "ci.oem_vendor_name_ptr" => out::val({ ci.oem_vendor_name_ptr } as u64, 4),
        "ci.oem_product_name_ptr" => out::val({ ci.oem_product_name_ptr } as u64, 4),
        "ci.oem_product_revision_ptr" => out::val({ ci.oem_product_revision_ptr } as u64, 4),
        "mi.mode_attributes" => out::val({ mi.mode_attributes }.bits() as u64, 2),
        "mi.window_a_attributes" => out::val({ mi.window_a_attributes }.bits() as u64, 1),
        "mi.window_b_attributes" => out::val({ mi.window_b_attributes }.bits() as u64, 1),
        "mi.window_granularity" => out::val({ mi.window_granularity } as u64, 2),
        "mi.window_size" => out::val({ mi.window_size } as u64, 2),
        "mi.window_a_segment" => out::val({ mi.window_a_segment } as u64, 2),
        "mi.window_b_segment" => out::val({ mi.window_b_segment } as u64, 2),
        "mi.window_function_ptr" => out::val({ mi.window_function_ptr } as u64, 4),
        "mi.pitch" => out::val({ mi.pitch } as u64, 2),
        "mi.resolution.0" => out::val({ mi.resolution }.0 as u64, 2),
        "mi.resolution.1" => out::val({ mi.resolution }.1 as u64, 2),
        "mi.character_size.0" => out::val({ mi.character_size }.0 as u64, 1),
        "mi.character_size.1" => out::val({ mi.character_size }.1 as u64, 1),
        "mi.number_of_planes" => out::val({ mi.number_of_planes } as u64, 1),
        "mi.bpp" => out::val({ mi.bpp } as u64, 1),
        "mi.number_of_banks" => out::val({ mi.number_of_banks } as u64, 1),
        "mi.memory_model" => out::val({ mi.memory_model } as u8 as u64, 1),
        "mi.bank_size" => out::val({ mi.bank_size } as u64, 1),
        "mi.number_of_image_pages" => out::val({ mi.number_of_image_pages } as u64, 1),
        "mi.red_field.size" => out::val({ mi.red_field }.size as u64, 1),
        "mi.red_field.position" => out::val({ mi.red_field }.position as u64, 1),
        "mi.green_field.size" => out::val({ mi.green_field }.size as u64, 1),
        "mi.green_field.position" => out::val({ mi.green_field }.position as u64, 1),
        "mi.blue_field.size" => out::val({ mi.blue_field }.size as u64, 1),
        "mi.blue_field.position" => out::val({ mi.blue_field }.position as u64, 1),
        "mi.reserved_field.size" => out::val({ mi.reserved_field }.size as u64, 1),
        "mi.reserved_field.position" => out::val({ mi.reserved_field }.position as u64, 1),
        "mi.direct_color_attributes" => out::val({ mi.direct_color_attributes }.bits() as u64, 1),
        "mi.framebuffer_base_ptr" => out::val({ mi.framebuffer_base_ptr } as u64, 4),
        "mi.offscreen_memory_offset" => out::val({ mi.offscreen_memory_offset } as u64, 4),
        "mi.offscreen_memory_size" => out::val({ mi.offscreen_memory_size } as u64, 2),
        _ => out::unsupported(),
    }
}

fn string(ctx: &Ctx, bi: Bi, kind: &str) -> Value {
    let r = match kind {
        "cmdline" => tag_or_none!(bi.command_line_tag()).cmdline(),
        "bootloader" => tag_or_none!(bi.boot_loader_name_tag()).name(),
        "module" => tag_or_none!(bi.get_tag::<multiboot2::ModuleTag>()).cmdline(),
        _ => return out::unsupported(),
    };
    match r {
        Ok(s) => out::ok(json!({"at": ctx.off(s.as_ptr()), "len": out::num(s.len())})),
        Err(e) => {
            std::hint::black_box(format!("{e} {e:?}"));
            match e {
                multiboot2::StringError::MissingNul(_) => out::err("MissingNul"),
                multiboot2::StringError::Utf8(_) => out::err("Utf8"),
            }
        }
    }
}

fn area(ctx: &Ctx, bi: Bi, i: usize, f: &str) -> Value {
    let t = tag_or_none!(bi.memory_map_tag());
    let areas = t.memory_areas();
    let a = match areas.get(i) {
        None => return out::none(),
        Some(a) => a,
    };
    match f {
        "at" => json!({"k": "ref", "at": ctx.off(a as *const multiboot2::MemoryArea), "n": 1, "len": out::num(size_of_val(a))}),
        "start_address" => out::val(a.start_address(), 8),
        "end_address" => out::val(a.end_address(), 8),
        "size" => out::val(a.size(), 8),
        "typ" => out::val(u32::from(a.typ()) as u64, 4),
        _ => out::unsupported(),
    }
}

/// Debug formatting: only the outcome class is observed (returns / panics / crashes).
fn dbg(ctx: &Ctx, bi: Bi, what: &str, call: &Value) -> Value {
    use std::fmt::Write;
    let mut s = String::new();
    macro_rules! d {
        ($e:expr) => {
            {
                let before = s.len();
                write!(s, "{:?}", $e).unwrap();
                let plain = s.len() - before;
                write!(s, "{:#?}", $e).unwrap();
                // ... and into sinks that refuse at various points of the output: Debug reports the error, it does
                // not panic
                for n in [0, 1, plain / 8, plain / 4, plain / 2, plain * 3 / 4, plain.saturating_sub(2)] {
                    let _ = write!(crate::out::Limited(n), "{:?}", $e);
                }
            }
        };
    }
    match what {
        "bi" => d!(bi),
        "apm" => d!(bi.apm_tag()),
        "meminfo" => d!(bi.basic_memory_info_tag()),
        "bootloader" => d!(bi.boot_loader_name_tag()),
        "bootdev" => d!(bi.bootdev_tag()),
        "cmdline" => d!(bi.command_line_tag()),
        "efi_bs" => d!(bi.efi_bs_not_exited_tag()),
        "efi_mmap" => d!(bi.efi_memory_map_tag()),
        "efi32" => d!(bi.efi_sdt32_tag()),
        "efi64" => d!(bi.efi_sdt64_tag()),
        "efi32_ih" => d!(bi.efi_ih32_tag()),
        "efi64_ih" => d!(bi.efi_ih64_tag()),
        "elf" => d!(bi.elf_sections_tag()),
        "framebuffer" => d!(bi.framebuffer_tag()),
        "load_base_addr" => d!(bi.load_base_addr_tag()),
        "mmap" => d!(bi.memory_map_tag()),
        "network" => d!(bi.network_tag()),
        "rsdpv1" => d!(bi.rsdp_v1_tag()),
        "rsdpv2" => d!(bi.rsdp_v2_tag()),
        "smbios" => d!(bi.smbios_tag()),
        "vbe" => d!(bi.vbe_info_tag()),
        "modules" => d!(bi.module_tags()),
        "module" => d!(bi.get_tag::<multiboot2::ModuleTag>()),
        "end" => d!(bi.get_tag::<multiboot2::EndTag>()),
        "tags" => d!(bi.tags()),
        "it" => match ctx.its.get(&out::arg_u64(call, "it")) {
            None => return out::skipped(),
            Some(It::Tags(i)) => d!(i),
            Some(It::Mods(i)) => d!(i),
            Some(It::Efi(i)) => s.push_str(&i.dbg_()),
            Some(It::Elf(i)) => d!(i),
            Some(It::HTags(i)) => d!(i),
            Some(It::Dummy(i)) => d!(i),
        },
        _ => return out::unsupported(),
    }
    std::hint::black_box(&s);
    // the Debug rendering of a string tag shows what its accessor returns (Debug escapes quotes, so the
    // pattern cannot occur inside the rendered text itself)
    if what == "cmdline" || what == "bootloader" {
        return json!({"k": "unit", "sok": if s.contains(": Ok(\"") { 1 } else { 0 }});
    }
    out::unit()
}

fn next(ctx: &mut Ctx, call: &Value) -> Value {
    let id = out::arg_u64(call, "it");
    let base = ctx.base;
    let ctx_ext = ctx.ext;
    let off = |p: *const u8| json!(out::clamp(p as usize as i128 - base as usize as i128));
    match ctx.its.get_mut(&id) {
        None => out::skipped(),
        Some(It::Tags(it)) => match it.next() {
            None => out::none(),
            Some(t) => {
                let h = t.header();
                out::some(json!({
                    "at": off((t as *const multiboot2::DynSizedStructure<multiboot2::TagHeader>).cast()),
                    "typ": out::le(u32::from(h.typ) as u64, 4),
                    "size": out::le(h.size as u64, 4),
                    "pat": off(t.payload().as_ptr()),
                    "plen": out::num(t.payload().len()),
                    "sv": out::num(size_of_val(t)),
                }))
            }
        },
        Some(It::Mods(it)) => match it.next() {
            None => out::none(),
            Some(m) => out::some(json!({
                "at": off((m as *const multiboot2::ModuleTag).cast()),
                "size": out::le(m.header().size as u64, 4),
                "sv": out::num(size_of_val(m)),
            })),
        },
        Some(It::Efi(it)) => match it.next_() {
            None => out::none(),
            Some(d) => {
                let p = (d as *const multiboot2::EFIMemoryDesc).cast::<u8>();
                out::some(json!({
                    "at": off(p),
                    "al": (p as usize % 8),
                    "ty": out::le(d.ty.0 as u64, 4),
                    "phys_start": out::le(d.phys_start, 8),
                    "virt_start": out::le(d.virt_start, 8),
                    "page_count": out::le(d.page_count, 8),
                    "att": out::le(d.att.bits(), 8),
                }))
            }
        },
        Some(It::Elf(it)) => match it.next() {
            None => out::none(),
            Some(s) => out::some(super::elf::section_json(&s, if call["names"].as_bool().unwrap_or(false) { ctx_ext } else { None })),
        },
        Some(It::HTags(it)) => match it.next() {
            None => out::none(),
            Some(t) => {
                let h = t.header();
                out::some(json!({
                    "at": off((t as *const multiboot2_common::DynSizedStructure<multiboot2_header::HeaderTagHeader>).cast()),
                    "typ": out::le(h.typ() as u16 as u64, 2),
                    "flags": out::le(h.flags() as u16 as u64, 2),
                    "size": out::le(h.size() as u64, 4),
                    "pat": off(t.payload().as_ptr()),
                    "plen": out::num(t.payload().len()),
                    "sv": out::num(size_of_val(t)),
                }))
            }
        },
        Some(_) => out::unsupported(),
    }
}
