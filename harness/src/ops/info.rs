//! multiboot2: boot information loading, walking, decoding.

use super::{Ctx, It};
use crate::out;
use multiboot2::{BootInformation, BootInformationHeader};
use multiboot2_common::MaybeDynSized;
use serde_json::{json, Value};
use std::mem::size_of_val;

pub fn dispatch(ctx: &mut Ctx, op: &str, call: &Value) -> Option<Value> {
    Some(match op {
        "load" => load(ctx, call),
        "tags" => {
            let id = out::arg_u64(call, "it");
            match ctx.bi_ref() {
                None => out::skipped(),
                Some(bi) => {
                    let it = bi.tags();
                    ctx.its.insert(id, It::Tags(it));
                    out::unit()
                }
            }
        }
        "module_tags" => {
            let id = out::arg_u64(call, "it");
            match ctx.bi_ref() {
                None => out::skipped(),
                Some(bi) => {
                    let it = bi.module_tags();
                    ctx.its.insert(id, It::Mods(it));
                    out::unit()
                }
            }
        }
        "next" => next(ctx, call),
        "clone" => {
            let id = out::arg_u64(call, "it");
            let to = out::arg_u64(call, "to");
            let c = match ctx.its.get(&id) {
                None => return Some(out::skipped()),
                Some(It::Tags(i)) => It::Tags(i.clone()),
                Some(It::Mods(i)) => It::Mods(i.clone()),
                Some(It::Efi(i)) => It::Efi(i.clone_()),
                Some(It::Elf(i)) => It::Elf(i.clone()),
                Some(It::HTags(i)) => It::HTags(i.clone()),
                Some(It::Dummy(i)) => It::Dummy(i.clone()),
            };
            ctx.its.insert(to, c);
            out::unit()
        }
        _ => return None,
    })
}

fn load(ctx: &mut Ctx, call: &Value) -> Value {
    let ptr = if call["null"].as_bool().unwrap_or(false) {
        std::ptr::null()
    } else {
        ctx.base.cast::<BootInformationHeader>()
    };
    ctx.bi = None;
    match unsafe { BootInformation::load(ptr) } {
        Ok(bi) => {
            let base = ctx.base as usize as i128;
            let v = json!({
                "start": out::clamp(bi.start_address() as i128 - base),
                "end": out::clamp(bi.end_address() as i128 - base),
                "ptr": ctx.off(bi.as_ptr()),
                "total": out::num(bi.total_size()),
            });
            ctx.bi = Some(bi);
            out::ok(v)
        }
        Err(e) => out::err(&format!("{e:?}")),
    }
}

pub fn tag_json(ctx: &Ctx, t: &multiboot2::DynSizedStructure<multiboot2::TagHeader>) -> Value {
    let h = t.header();
    json!({
        "at": ctx.off(t as *const multiboot2::DynSizedStructure<multiboot2::TagHeader>),
        "typ": out::le(u32::from(h.typ) as u64, 4),
        "size": out::le(h.size as u64, 4),
        "pat": ctx.off(t.payload().as_ptr()),
        "plen": out::num(t.payload().len()),
        "sv": out::num(size_of_val(t)),
    })
}

fn next(ctx: &mut Ctx, call: &Value) -> Value {
    let id = out::arg_u64(call, "it");
    let base = ctx.base;
    let off = |p: *const u8| json!(out::clamp(p as usize as i128 - base as usize as i128));
    match ctx.its.get_mut(&id) {
        None => out::skipped(),
        Some(It::Tags(it)) => match it.next() {
            None => out::none(),
            Some(t) => {
                let h = t.header();
                out::some(json!({
                    "at": off((t as *const multiboot2::DynSizedStructure<multiboot2::TagHeader>).cast()),
                    "typ": out::le(u32::from(h.typ) as u64, 4),
                    "size": out::le(h.size as u64, 4),
                    "pat": off(t.payload().as_ptr()),
                    "plen": out::num(t.payload().len()),
                    "sv": out::num(size_of_val(t)),
                }))
            }
        },
        Some(It::Mods(it)) => match it.next() {
            None => out::none(),
            Some(m) => out::some(json!({
                "at": off((m as *const multiboot2::ModuleTag).cast()),
                "size": out::le(m.header().size as u64, 4),
                "sv": out::num(size_of_val(m)),
            })),
        },
        Some(_) => out::unsupported(),
    }
}
