//! multiboot2-header: loading, walking, typed getters, field decoding, find_header, checksum.

use super::{Ctx, It};
use crate::out;
use multiboot2_common::MaybeDynSized;
use multiboot2_header::{HeaderTagISA, Multiboot2BasicHeader, Multiboot2Header};
use serde_json::{json, Value};
use std::mem::size_of_val;

type Hdr = &'static Multiboot2Header<'static>;

pub fn dispatch(ctx: &mut Ctx, op: &str, call: &Value) -> Option<Value> {
    Some(match op {
        "hload" => hload(ctx, call),
        "htags" => {
            let id = out::arg_u64(call, "it");
            match ctx.hdr_ref() {
                None => out::skipped(),
                Some(h) => {
                    ctx.its.insert(id, It::HTags(h.iter()));
                    out::unit()
                }
            }
        }
        "hget" => match ctx.hdr_ref() {
            None => out::skipped(),
            Some(h) => hget(ctx, h, out::arg_str(call, "kind")),
        },
        "hfield" => match ctx.hdr_ref() {
            None => out::skipped(),
            Some(h) => hfield(ctx, h, out::arg_str(call, "kind"), out::arg_str(call, "f")),
        },
        // the i-th tag of the walk viewed through a sized header-tag struct of the caller's choosing
        "hview" => match ctx.hdr_ref() {
            None => out::skipped(),
            Some(h) => hview(h, out::arg_str(call, "view"), out::arg_u64(call, "i") as usize, out::arg_str(call, "f")),
        },
        "hacc" => match ctx.hdr_ref() {
            None => out::skipped(),
            Some(h) => match out::arg_str(call, "f") {
                "header_magic" => out::val(h.header_magic() as u64, 4),
                "arch" => out::val(h.arch() as u32 as u64, 4),
                "length" => out::val(h.length() as u64, 4),
                "checksum" => out::val(h.checksum() as u64, 4),
                "verify_checksum" => out::boolean(h.verify_checksum()),
                _ => out::unsupported(),
            },
        },
        // the image's first 16 bytes viewed as a bare Multiboot2BasicHeader (no load, no length requirement)
        "basic" => {
            if ctx.len < 16 || ctx.base as usize % 8 != 0 {
                return Some(out::unsupported());
            }
            let b: &Multiboot2BasicHeader = unsafe { &*ctx.base.cast::<Multiboot2BasicHeader>() };
            match out::arg_str(call, "f") {
                "header_magic" => out::val(b.header_magic() as u64, 4),
                "arch" => out::val(b.arch() as u32 as u64, 4),
                "length" => out::val(b.length() as u64, 4),
                "checksum" => out::val(b.checksum() as u64, 4),
                "verify_checksum" => out::boolean(b.verify_checksum()),
                "dbg" => {
                    std::hint::black_box(format!("{b:?}"));
                    out::unit()
                }
                _ => out::unsupported(),
            }
        }
        "hdbg" => match ctx.hdr_ref() {
            None => out::skipped(),
            Some(h) => hdbg(ctx, h, out::arg_str(call, "what")),
        },
        "find_header" => match Multiboot2Header::find_header(ctx.slice()) {
            Ok(None) => out::ok(out::none()),
            Ok(Some((s, idx))) => out::ok(out::some(json!({
                "at": ctx.off(s.as_ptr()), "len": out::num(s.len()), "idx": out::le(idx as u64, 4)}))),
            Err(e) => out::err_of(&e),
        },
        "calc_checksum" => {
            let arch = match out::arg_u64(call, "arch") {
                0 => HeaderTagISA::I386,
                4 => HeaderTagISA::MIPS32,
                _ => return Some(out::unsupported()),
            };
            let magic = out::arg_u64(call, "magic") as u32;
            let length = out::arg_u64(call, "length") as u32;
            let a = Multiboot2Header::calc_checksum(magic, arch, length);
            let b = Multiboot2BasicHeader::calc_checksum(magic, arch, length);
            json!({"k": "val", "v": out::le(a as u64, 4), "twin": out::le(b as u64, 4)})
        }
        _ => return None,
    })
}

fn hload(ctx: &mut Ctx, call: &Value) -> Value {
    let ptr = if call["null"].as_bool().unwrap_or(false) {
        std::ptr::null()
    } else {
        ctx.base.cast::<Multiboot2BasicHeader>()
    };
    ctx.hdr = None;
    match unsafe { Multiboot2Header::load(ptr) } {
        Ok(h) => {
            ctx.hdr = Some(h);
            out::ok(json!({}))
        }
        Err(e) => out::err_of(&e),
    }
}

fn refv<T: ?Sized>(ctx: &Ctx, t: &T) -> Value {
    json!({"at": ctx.off(t as *const T), "sv": out::num(size_of_val(t))})
}

fn opt_ref<T: ?Sized>(ctx: &Ctx, o: Option<&T>) -> Value {
    match o {
        None => out::none(),
        Some(t) => out::some(refv(ctx, t)),
    }
}

fn hget(ctx: &Ctx, h: Hdr, kind: &str) -> Value {
    match kind {
        "info_req" => opt_ref(ctx, h.information_request_tag()),
        "address" => opt_ref(ctx, h.address_tag()),
        "entry" => opt_ref(ctx, h.entry_address_tag()),
        "entry_efi32" => opt_ref(ctx, h.entry_address_efi32_tag()),
        "entry_efi64" => opt_ref(ctx, h.entry_address_efi64_tag()),
        "console" => opt_ref(ctx, h.console_flags_tag()),
        "hfb" => opt_ref(ctx, h.framebuffer_tag()),
        "module_align" => opt_ref(ctx, h.module_align_tag()),
        "hefi_bs" => opt_ref(ctx, h.efi_boot_services_tag()),
        "relocatable" => opt_ref(ctx, h.relocatable_tag()),
        _ => out::unsupported(),
    }
}

macro_rules! tag_or_none {
    ($e:expr) => {
        match $e {
            None => return out::none(),
            Some(t) => t,
        }
    };
}

/// typ()/flags()/size() exist on every header tag type
macro_rules! common {
    ($t:expr, $f:expr) => {
        match $f {
            "typ" => return out::val($t.typ() as u16 as u64, 2),
            "flags" => return out::val($t.flags() as u16 as u64, 2),
            "size" => return out::val($t.size() as u64, 4),
            _ => {}
        }
    };
}

fn hfield(ctx: &Ctx, h: Hdr, kind: &str, f: &str) -> Value {
    match kind {
        "info_req" => {
            let t = tag_or_none!(h.information_request_tag());
            common!(t, f);
            match f {
                "requests" => {
                    let r = t.requests();
                    json!({"k": "ref", "at": ctx.off(r.as_ptr()), "n": out::num(r.len()), "len": out::num(size_of_val(r))})
                }
                _ => out::unsupported(),
            }
        }
        "address" => {
            let t = tag_or_none!(h.address_tag());
            common!(t, f);
            match f {
                "header_addr" => out::val(t.header_addr() as u64, 4),
                "load_addr" => out::val(t.load_addr() as u64, 4),
                "load_end_addr" => out::val(t.load_end_addr() as u64, 4),
                "bss_end_addr" => out::val(t.bss_end_addr() as u64, 4),
                _ => out::unsupported(),
            }
        }
        "entry" => {
            let t = tag_or_none!(h.entry_address_tag());
            common!(t, f);
            match f {
                "entry_addr" => out::val(t.entry_addr() as u64, 4),
                _ => out::unsupported(),
            }
        }
        "entry_efi32" => {
            let t = tag_or_none!(h.entry_address_efi32_tag());
            common!(t, f);
            match f {
                "entry_addr" => out::val(t.entry_addr() as u64, 4),
                _ => out::unsupported(),
            }
        }
        "entry_efi64" => {
            let t = tag_or_none!(h.entry_address_efi64_tag());
            common!(t, f);
            match f {
                "entry_addr" => out::val(t.entry_addr() as u64, 4),
                _ => out::unsupported(),
            }
        }
        "console" => {
            let t = tag_or_none!(h.console_flags_tag());
            common!(t, f);
            match f {
                "console_flags" => out::val(t.console_flags() as u32 as u64, 4),
                _ => out::unsupported(),
            }
        }
        "hfb" => {
            let t = tag_or_none!(h.framebuffer_tag());
            common!(t, f);
            match f {
                "width" => out::val(t.width() as u64, 4),
                "height" => out::val(t.height() as u64, 4),
                "depth" => out::val(t.depth() as u64, 4),
                _ => out::unsupported(),
            }
        }
        "module_align" => {
            let t = tag_or_none!(h.module_align_tag());
            common!(t, f);
            out::unsupported()
        }
        "hefi_bs" => {
            let t = tag_or_none!(h.efi_boot_services_tag());
            common!(t, f);
            out::unsupported()
        }
        "relocatable" => {
            let t = tag_or_none!(h.relocatable_tag());
            common!(t, f);
            match f {
                "min_addr" => out::val(t.min_addr() as u64, 4),
                "max_addr" => out::val(t.max_addr() as u64, 4),
                "align" => out::val(t.align() as u64, 4),
                "preference" => out::val(t.preference() as u32 as u64, 4),
                _ => out::unsupported(),
            }
        }
        _ => out::unsupported(),
    }
}

fn hview(h: Hdr, view: &str, i: usize, f: &str) -> Value {
    use multiboot2_header::{
        AddressHeaderTag, ConsoleHeaderTag, EfiBootServiceHeaderTag, EntryAddressHeaderTag, EntryEfi32HeaderTag,
        EntryEfi64HeaderTag, FramebufferHeaderTag, ModuleAlignHeaderTag, RelocatableHeaderTag,
    };
    let tag = tag_or_none!(h.iter().nth(i));
    macro_rules! view {
        ($ty:ty, $t:ident, $rest:expr) => {{
            let $t = tag.cast::<$ty>();
            common!($t, f);
            $rest
        }};
    }
    match view {
        "address" => view!(AddressHeaderTag, t, match f {
            "header_addr" => out::val(t.header_addr() as u64, 4),
            "load_addr" => out::val(t.load_addr() as u64, 4),
            "load_end_addr" => out::val(t.load_end_addr() as u64, 4),
            "bss_end_addr" => out::val(t.bss_end_addr() as u64, 4),
            _ => out::unsupported(),
        }),
        "entry" => view!(EntryAddressHeaderTag, t, match f {
            "entry_addr" => out::val(t.entry_addr() as u64, 4),
            _ => out::unsupported(),
        }),
        "entry_efi32" => view!(EntryEfi32HeaderTag, t, match f {
            "entry_addr" => out::val(t.entry_addr() as u64, 4),
            _ => out::unsupported(),
        }),
        "entry_efi64" => view!(EntryEfi64HeaderTag, t, match f {
            "entry_addr" => out::val(t.entry_addr() as u64, 4),
            _ => out::unsupported(),
        }),
        "console" => view!(ConsoleHeaderTag, t, match f {
            "console_flags" => out::val(t.console_flags() as u32 as u64, 4),
            _ => out::unsupported(),
        }),
        "hfb" => view!(FramebufferHeaderTag, t, match f {
            "width" => out::val(t.width() as u64, 4),
            "height" => out::val(t.height() as u64, 4),
            "depth" => out::val(t.depth() as u64, 4),
            _ => out::unsupported(),
        }),
        "module_align" => view!(ModuleAlignHeaderTag, t, out::unsupported()),
        "hefi_bs" => view!(EfiBootServiceHeaderTag, t, out::unsupported()),
        "relocatable" => view!(RelocatableHeaderTag, t, match f {
            "min_addr" => out::val(t.min_addr() as u64, 4),
            "max_addr" => out::val(t.max_addr() as u64, 4),
            "align" => out::val(t.align() as u64, 4),
            "preference" => out::val(t.preference() as u32 as u64, 4),
            _ => out::unsupported(),
        }),
        _ => out::unsupported(),
    }
}

fn hdbg(_ctx: &Ctx, h: Hdr, what: &str) -> Value {
    use std::fmt::Write;
    let mut s = String::new();
    macro_rules! d {
        ($e:expr) => {
            {
                let before = s.len();
                write!(s, "{:?}", $e).unwrap();
                let plain = s.len() - before;
                write!(s, "{:#?}", $e).unwrap();
                // ... and into sinks that refuse at various points of the output: Debug reports the error, it does
                // not panic
                for n in [0, 1, plain / 8, plain / 4, plain / 2, plain * 3 / 4, plain.saturating_sub(2)] {
                    let _ = write!(crate::out::Limited(n), "{:?}", $e);
                }
            }
        };
    }
    match what {
        "hdr" => d!(h),
        "info_req" => d!(h.information_request_tag()),
        "address" => d!(h.address_tag()),
        "entry" => d!(h.entry_address_tag()),
        "entry_efi32" => d!(h.entry_address_efi32_tag()),
        "entry_efi64" => d!(h.entry_address_efi64_tag()),
        "console" => d!(h.console_flags_tag()),
        "hfb" => d!(h.framebuffer_tag()),
        "module_align" => d!(h.module_align_tag()),
        "hefi_bs" => d!(h.efi_boot_services_tag()),
        "relocatable" => d!(h.relocatable_tag()),
        "iter" => d!(h.iter()),
        _ => return out::unsupported(),
    }
    std::hint::black_box(&s);
    out::unit()
}

pub fn htag_json(ctx: &Ctx, t: &multiboot2_common::DynSizedStructure<multiboot2_header::HeaderTagHeader>) -> Value {
    let h = t.header();
    json!({
        "at": ctx.off(t as *const multiboot2_common::DynSizedStructure<multiboot2_header::HeaderTagHeader>),
        "typ": out::le(h.typ() as u16 as u64, 2),
        "flags": out::le(h.flags() as u16 as u64, 2),
        "size": out::le(h.size() as u64, 4),
        "pat": ctx.off(t.payload().as_ptr()),
        "plen": out::num(t.payload().len()),
        "sv": out::num(size_of_val(t)),
        "hsize": out::num(MaybeDynSized::header(t).size() as usize),
    })
}
