//! multiboot2-common: BytesRef, DynSizedStructure::ref_from_slice (C14).

use super::Ctx;
use crate::out;
use multiboot2_common::test_utils::DummyTestHeader;
use multiboot2_common::{BytesRef, DynSizedStructure, Header};
use serde_json::{json, Value};
use std::mem::size_of_val;

pub fn dispatch(ctx: &mut Ctx, op: &str, call: &Value) -> Option<Value> {
    Some(match op {
        "ref_from_slice" => match out::arg_str(call, "h") {
            "bi" => ref_from_slice::<multiboot2::BootInformationHeader>(ctx),
            "tag" => ref_from_slice::<multiboot2::TagHeader>(ctx),
            "mb" => ref_from_slice::<multiboot2_header::Multiboot2BasicHeader>(ctx),
            "htag" => ref_from_slice::<multiboot2_header::HeaderTagHeader>(ctx),
            "dummy" => ref_from_slice::<DummyTestHeader>(ctx),
            _ => out::unsupported(),
        },
        "bytes_ref" => match out::arg_str(call, "h") {
            "bi" => bytes_ref::<multiboot2::BootInformationHeader>(ctx),
            "tag" => bytes_ref::<multiboot2::TagHeader>(ctx),
            "mb" => bytes_ref::<multiboot2_header::Multiboot2BasicHeader>(ctx),
            "htag" => bytes_ref::<multiboot2_header::HeaderTagHeader>(ctx),
            "dummy" => bytes_ref::<DummyTestHeader>(ctx),
            _ => out::unsupported(),
        },
        // clone_dyn of the structure that ref_from_slice yields for the image (C16: cloning is the identity)
        #[cfg(feature = "builder")]
        "clone_ref" => match out::arg_str(call, "h") {
            "bi" => clone_ref::<multiboot2::BootInformationHeader>(ctx),
            "tag" => clone_ref::<multiboot2::TagHeader>(ctx),
            "htag" => clone_ref::<multiboot2_header::HeaderTagHeader>(ctx),
            "dummy" => clone_ref::<DummyTestHeader>(ctx),
            _ => out::unsupported(),
        },
        "round8" => {
            let n = out::arg_u64(call, "n") as usize;
            out::val(multiboot2_common::increase_to_alignment(n) as u64, 8)
        }
        _ => return None,
    })
}

pub fn dyn_ref_json<H: Header>(ctx: &Ctx, r: &DynSizedStructure<H>) -> Value {
    json!({
        "at": ctx.off(r as *const DynSizedStructure<H>),
        "hat": ctx.off(r.header() as *const H),
        "pat": ctx.off(r.payload().as_ptr()),
        "plen": out::num(r.payload().len()),
        "sv": out::num(size_of_val(r)),
    })
}

fn ref_from_slice<H: Header + 'static>(ctx: &Ctx) -> Value {
    match DynSizedStructure::<H>::ref_from_slice(ctx.slice()) {
        Ok(r) => out::ok(dyn_ref_json(ctx, r)),
        Err(e) => out::err(&format!("{e:?}")),
    }
}

fn bytes_ref<H: Header + 'static>(ctx: &Ctx) -> Value {
    match BytesRef::<H>::try_from(ctx.slice()) {
        Ok(r) => out::ok(json!({"at": ctx.off(r.as_ptr()), "len": out::num(r.len())})),
        Err(e) => out::err(&format!("{e:?}")),
    }
}

#[cfg(feature = "builder")]
fn clone_ref<H: Header + 'static>(ctx: &Ctx) -> Value {
    match DynSizedStructure::<H>::ref_from_slice(ctx.slice()) {
        Err(e) => out::err(&format!("{e:?}")),
        Ok(r) => {
            let b = multiboot2_common::clone_dyn(r);
            let raw = unsafe { std::slice::from_raw_parts((&*b as *const DynSizedStructure<H>).cast::<u8>(), size_of_val(&*b)) };
            out::ok(json!({"bytes": out::bytes(raw), "sv": out::num(size_of_val(&*b)),
                           "al": (&*b as *const DynSizedStructure<H>).cast::<u8>() as usize % 8,
                           "plen": out::num(b.payload().len())}))
        }
    }
}
