//! multiboot2-common: BytesRef, DynSizedStructure::ref_from_slice (C14).

use super::Ctx;
use crate::out;
use multiboot2_common::test_utils::DummyTestHeader;
use multiboot2_common::{BytesRef, DynSizedStructure, Header};
use serde_json::{json, Value};
use std::mem::{size_of, size_of_val};

/// Headers a user of the generic functions may define: sizes that are not a multiple of 8.
/// Like the crates' own tag headers they refuse (by a panic) a stored size below the header size.
#[derive(Clone, Copy, Debug, PartialEq, Eq)]
#[repr(C)]
pub struct Hdr12 {
    typ: u32,
    size: u32,
    extra: u32,
}
impl Hdr12 {
    #[allow(dead_code)]
    pub fn new(typ: u32) -> Self {
        Hdr12 { typ, size: 0, extra: 0xeedd_ccbb }
    }
}
impl Header for Hdr12 {
    fn payload_len(&self) -> usize {
        assert!(self.size as usize >= size_of::<Self>());
        self.size as usize - size_of::<Self>()
    }
    fn set_size(&mut self, total_size: usize) {
        self.size = total_size as u32;
    }
}
#[derive(Clone, Copy, Debug, PartialEq, Eq)]
#[repr(C)]
pub struct Hdr4 {
    size: u32,
}
impl Hdr4 {
    #[allow(dead_code)]
    pub fn new() -> Self {
        Hdr4 { size: 0 }
    }
}
impl Header for Hdr4 {
    fn payload_len(&self) -> usize {
        assert!(self.size as usize >= size_of::<Self>());
        self.size as usize - size_of::<Self>()
    }
    fn set_size(&mut self, total_size: usize) {
        self.size = total_size as u32;
    }
}

pub fn dispatch(ctx: &mut Ctx, op: &str, call: &Value) -> Option<Value> {
    Some(match op {
        "ref_from_slice" => match out::arg_str(call, "h") {
            "bi" => ref_from_slice::<multiboot2::BootInformationHeader>(ctx),
            "tag" => ref_from_slice::<multiboot2::TagHeader>(ctx),
            "mb" => ref_from_slice::<multiboot2_header::Multiboot2BasicHeader>(ctx),
            "htag" => ref_from_slice::<multiboot2_header::HeaderTagHeader>(ctx),
            "dummy" => ref_from_slice::<DummyTestHeader>(ctx),
            "h12" => ref_from_slice::<Hdr12>(ctx),
            "h4" => ref_from_slice::<Hdr4>(ctx),
            _ => out::unsupported(),
        },
        // the two public steps separately: BytesRef::try_from, then DynSizedStructure::ref_from_bytes
        "ref_from_bytes" => match out::arg_str(call, "h") {
            "bi" => ref_from_bytes::<multiboot2::BootInformationHeader>(ctx),
            "tag" => ref_from_bytes::<multiboot2::TagHeader>(ctx),
            "mb" => ref_from_bytes::<multiboot2_header::Multiboot2BasicHeader>(ctx),
            "htag" => ref_from_bytes::<multiboot2_header::HeaderTagHeader>(ctx),
            "dummy" => ref_from_bytes::<DummyTestHeader>(ctx),
            "h12" => ref_from_bytes::<Hdr12>(ctx),
            "h4" => ref_from_bytes::<Hdr4>(ctx),
            _ => out::unsupported(),
        },
        "bytes_ref" => match out::arg_str(call, "h") {
            "bi" => bytes_ref::<multiboot2::BootInformationHeader>(ctx),
            "tag" => bytes_ref::<multiboot2::TagHeader>(ctx),
            "mb" => bytes_ref::<multiboot2_header::Multiboot2BasicHeader>(ctx),
            "htag" => bytes_ref::<multiboot2_header::HeaderTagHeader>(ctx),
            "dummy" => bytes_ref::<DummyTestHeader>(ctx),
            "h12" => bytes_ref::<Hdr12>(ctx),
            "h4" => bytes_ref::<Hdr4>(ctx),
            _ => out::unsupported(),
        },
        // clone_dyn of the structure that ref_from_slice yields for the image (C16: cloning is the identity)
        #[cfg(feature = "builder")]
        "clone_ref" => match out::arg_str(call, "h") {
            "bi" => clone_ref::<multiboot2::BootInformationHeader>(ctx),
            "tag" => clone_ref::<multiboot2::TagHeader>(ctx),
            "htag" => clone_ref::<multiboot2_header::HeaderTagHeader>(ctx),
            "dummy" => clone_ref::<DummyTestHeader>(ctx),
            "h12" => clone_ref::<Hdr12>(ctx),
            "h4" => clone_ref::<Hdr4>(ctx),
            _ => out::unsupported(),
        },
        // how the error values render for a user (Display): every variant, of the common crate and as forwarded
        // by the two crates' LoadError
        "err_texts" => {
            use multiboot2_common::MemoryError as M;
            let all = [M::Null, M::WrongAlignment, M::ShorterThanHeader, M::MissingPadding, M::InvalidReportedTotalSize];
            let mem: Vec<String> = all.iter().map(|e| format!("{e}")).collect();
            let mut info: Vec<String> = all.iter().map(|e| format!("{}", multiboot2::LoadError::Memory(*e))).collect();
            info.push(format!("{}", multiboot2::LoadError::NoEndTag));
            let mut hdr: Vec<String> = all.iter().map(|e| format!("{}", multiboot2_header::LoadError::Memory(*e))).collect();
            hdr.push(format!("{}", multiboot2_header::LoadError::MagicNotFound));
            hdr.push(format!("{}", multiboot2_header::LoadError::ChecksumMismatch));
            json!({"k": "texts", "mem": mem, "info": info, "hdr": hdr})
        }
        "round8" => {
            let n = out::arg_u64(call, "n") as usize;
            out::val(multiboot2_common::increase_to_alignment(n) as u64, 8)
        }
        _ => return None,
    })
}

pub fn dyn_ref_json<H: Header>(ctx: &Ctx, r: &DynSizedStructure<H>) -> Value {
    json!({
        "at": ctx.off(r as *const DynSizedStructure<H>),
        "hat": ctx.off(r.header() as *const H),
        "pat": ctx.off(r.payload().as_ptr()),
        "plen": out::num(r.payload().len()),
        "sv": out::num(size_of_val(r)),
    })
}

fn ref_from_slice<H: Header + 'static>(ctx: &Ctx) -> Value {
    match DynSizedStructure::<H>::ref_from_slice(ctx.slice()) {
        Ok(r) => out::ok(dyn_ref_json(ctx, r)),
        Err(e) => out::err_of(&e),
    }
}

fn ref_from_bytes<H: Header + 'static>(ctx: &Ctx) -> Value {
    match BytesRef::<H>::try_from(ctx.slice()) {
        Err(e) => out::err_of(&e),
        Ok(b) => match DynSizedStructure::<H>::ref_from_bytes(b) {
            Ok(r) => out::ok(dyn_ref_json(ctx, r)),
            Err(e) => out::err_of(&e),
        },
    }
}

fn bytes_ref<H: Header + 'static>(ctx: &Ctx) -> Value {
    match BytesRef::<H>::try_from(ctx.slice()) {
        Ok(r) => out::ok(json!({"at": ctx.off(r.as_ptr()), "len": out::num(r.len())})),
        Err(e) => out::err_of(&e),
    }
}

#[cfg(feature = "builder")]
fn clone_ref<H: Header + 'static>(ctx: &Ctx) -> Value {
    match DynSizedStructure::<H>::ref_from_slice(ctx.slice()) {
        Err(e) => out::err_of(&e),
        Ok(r) => {
            let b = multiboot2_common::clone_dyn(r);
            let raw = unsafe { std::slice::from_raw_parts((&*b as *const DynSizedStructure<H>).cast::<u8>(), size_of_val(&*b)) };
            out::ok(json!({"bytes": out::bytes(raw), "sv": out::num(size_of_val(&*b)),
                           "al": (&*b as *const DynSizedStructure<H>).cast::<u8>() as usize % 8,
                           "plen": out::num(b.payload().len())}))
        }
    }
}
