//! C15: a family of user-defined tag types that truthfully declare their fixed size and element
//! count, viewed through the public `BootInformation::get_tag`.
//!   s<N>      sized tag with N extra 32-bit words                       (N = 0..6)
//!   d<F>_<E>  dynamically sized tag: fixed part of F bytes, then [elem] (F = 8,12,16,20,24; E = 1,2,3,4,8,24)

use super::Ctx;
use crate::out;
use multiboot2::{MaybeDynSized, Tag, TagHeader, TagType};
use serde_json::{json, Value};
use std::mem::{align_of, size_of, size_of_val};

pub const ID_BASE: u32 = 0x1000;

macro_rules! sized_custom {
    ($name:ident, $n:expr, $idx:expr) => {
        sized_custom!($name, $n, $idx, 8);
    };
    ($name:ident, $n:expr, $idx:expr, $al:literal) => {
        #[repr(C, align($al))]
        pub struct $name {
            header: TagHeader,
            words: [u32; $n],
        }
        impl MaybeDynSized for $name {
            type Header = TagHeader;
            const BASE_SIZE: usize = size_of::<Self>();
            fn dst_len(_: &TagHeader) {}
        }
        impl Tag for $name {
            type IDType = TagType;
            const ID: TagType = TagType::Custom(ID_BASE + $idx);
        }
        impl $name {
            fn describe(&self, ctx: &Ctx) -> Value {
                let b = unsafe { std::slice::from_raw_parts(self.words.as_ptr().cast::<u8>(), 4 * $n) };
                json!({"at": ctx.off(self as *const Self), "sv": out::num(size_of_val(self)),
                       "fat": ctx.off(self.words.as_ptr()), "first": out::bytes(&b[..b.len().min(4)])})
            }
        }
    };
}

macro_rules! dst_custom {
    ($name:ident, $fixed:expr, $elem:ty, $idx:expr) => {
        #[derive(ptr_meta::Pointee)]
        #[repr(C, align(8))]
        pub struct $name {
            header: TagHeader,
            fixed: [u8; $fixed - 8],
            tail: [$elem],
        }
        impl MaybeDynSized for $name {
            type Header = TagHeader;
            const BASE_SIZE: usize = $fixed;
            fn dst_len(header: &TagHeader) -> usize {
                assert!(header.size as usize >= Self::BASE_SIZE);
                let rest = header.size as usize - Self::BASE_SIZE;
                assert_eq!(rest % size_of::<$elem>(), 0);
                rest / size_of::<$elem>()
            }
        }
        impl Tag for $name {
            type IDType = TagType;
            const ID: TagType = TagType::Custom(ID_BASE + $idx);
        }
        impl $name {
            fn describe(&self, ctx: &Ctx) -> Value {
                json!({"at": ctx.off(self as *const Self), "sv": out::num(size_of_val(self)),
                       "tat": ctx.off(self.tail.as_ptr()), "n": out::num(self.tail.len()),
                       "tlen": out::num(size_of_val(&self.tail)), "ealign": align_of::<$elem>()})
            }
        }
    };
}

sized_custom!(S0, 0, 0);
sized_custom!(S1, 1, 1);
sized_custom!(S2, 2, 2);
sized_custom!(S3, 3, 3);
sized_custom!(S4, 4, 4);
sized_custom!(S5, 5, 5);
sized_custom!(S6, 6, 6);
// stricter alignment than the tags' own: only ever looked for at 16-aligned addresses
sized_custom!(A16w2, 2, 114, 16);
sized_custom!(A16w6, 6, 118, 16);

type E3 = [u8; 3];
type E24 = [u64; 3];
macro_rules! dst_row {
    ($f:expr, $base:expr, $a:ident, $b:ident, $c:ident, $d:ident, $e:ident, $g:ident) => {
        dst_custom!($a, $f, u8, $base);
        dst_custom!($b, $f, u16, $base + 1);
        dst_custom!($c, $f, E3, $base + 2);
        dst_custom!($d, $f, u32, $base + 3);
        dst_custom!($e, $f, u64, $base + 4);
        dst_custom!($g, $f, E24, $base + 5);
    };
}
dst_row!(8, 16, D8e1, D8e2, D8e3, D8e4, D8e8, D8e24);
dst_row!(12, 32, D12e1, D12e2, D12e3, D12e4, D12e8, D12e24);
dst_row!(16, 48, D16e1, D16e2, D16e3, D16e4, D16e8, D16e24);
dst_row!(20, 64, D20e1, D20e2, D20e3, D20e4, D20e8, D20e24);
dst_row!(24, 80, D24e1, D24e2, D24e3, D24e4, D24e8, D24e24);

/// ref_from_slice on the whole image (the caller's slice may continue behind the tag), then cast
fn slice_cast(ctx: &Ctx, call: &Value) -> Value {
    let r = match multiboot2::DynSizedStructure::<TagHeader>::ref_from_slice(ctx.slice()) {
        Err(e) => return out::err_of(&e),
        Ok(r) => r,
    };
    macro_rules! c {
        ($t:ty) => {
            out::some(r.cast::<$t>().describe(ctx))
        };
    }
    match out::arg_str(call, "t") {
        "s0" => c!(S0), "s1" => c!(S1), "s2" => c!(S2), "s3" => c!(S3), "s4" => c!(S4), "s5" => c!(S5), "s6" => c!(S6),
        _ => out::unsupported(),
    }
}

/// an under-aligned user type without a TagHeader field: plain words, 20 bytes, alignment 4
#[repr(C)]
pub struct U20 {
    typ: u32,
    size: u32,
    words: [u32; 3],
}
impl MaybeDynSized for U20 {
    type Header = TagHeader;
    const BASE_SIZE: usize = size_of::<Self>();
    fn dst_len(_: &TagHeader) {}
}
impl Tag for U20 {
    type IDType = TagType;
    const ID: TagType = TagType::Custom(ID_BASE + 120);
}
impl U20 {
    fn describe(&self, ctx: &Ctx) -> Value {
        let b = unsafe { std::slice::from_raw_parts(self.words.as_ptr().cast::<u8>(), 12) };
        json!({"at": ctx.off(self as *const Self), "sv": out::num(size_of_val(self)),
               "fat": ctx.off(self.words.as_ptr()), "first": out::bytes(&b[..4])})
    }
}

pub fn dispatch(ctx: &mut Ctx, op: &str, call: &Value) -> Option<Value> {
    if op == "slice_cast" {
        return Some(slice_cast(ctx, call));
    }
    if op != "custom_get" {
        return None;
    }
    let bi = match ctx.bi_ref() {
        None => return Some(out::skipped()),
        Some(b) => b,
    };
    macro_rules! g {
        ($t:ty) => {
            match bi.get_tag::<$t>() {
                None => out::none(),
                Some(t) => out::some(t.describe(ctx)),
            }
        };
    }
    if out::arg_str(call, "t").starts_with("a16") && ctx.base as usize % 16 != 0 {
        eprintln!("16-aligned custom type on an image that is not 16-aligned (tool error)");
        std::process::exit(3);
    }
    Some(match out::arg_str(call, "t") {
        "a16_2" => g!(A16w2), "a16_6" => g!(A16w6), "u20" => g!(U20),
        "s0" => g!(S0), "s1" => g!(S1), "s2" => g!(S2), "s3" => g!(S3), "s4" => g!(S4), "s5" => g!(S5), "s6" => g!(S6),
        "d8_1" => g!(D8e1), "d8_2" => g!(D8e2), "d8_3" => g!(D8e3), "d8_4" => g!(D8e4), "d8_8" => g!(D8e8), "d8_24" => g!(D8e24),
        "d12_1" => g!(D12e1), "d12_2" => g!(D12e2), "d12_3" => g!(D12e3), "d12_4" => g!(D12e4), "d12_8" => g!(D12e8), "d12_24" => g!(D12e24),
        "d16_1" => g!(D16e1), "d16_2" => g!(D16e2), "d16_3" => g!(D16e3), "d16_4" => g!(D16e4), "d16_8" => g!(D16e8), "d16_24" => g!(D16e24),
        "d20_1" => g!(D20e1), "d20_2" => g!(D20e2), "d20_3" => g!(D20e3), "d20_4" => g!(D20e4), "d20_8" => g!(D20e8), "d20_24" => g!(D20e24),
        "d24_1" => g!(D24e1), "d24_2" => g!(D24e2), "d24_3" => g!(D24e3), "d24_4" => g!(D24e4), "d24_8" => g!(D24e8), "d24_24" => g!(D24e24),
        _ => out::unsupported(),
    })
}
