//! Constructors of the fixed-size tag types: these need no allocator and exist in every build,
//! with or without the cargo feature `builder` (C07, and C08 across the builds).

use crate::out;
use multiboot2::*;
use multiboot2_header as h;
use serde_json::{json, Map, Value};
use std::mem::{align_of, size_of, size_of_val};
use std::panic::{catch_unwind, AssertUnwindSafe};

pub fn u(call: &Value, n: &str) -> u64 {
    out::arg_u64(call, n)
}

pub fn raw<T: ?Sized>(t: &T) -> &[u8] {
    unsafe { std::slice::from_raw_parts((t as *const T).cast::<u8>(), size_of_val(t)) }
}

/// projection of a constructed object: its raw bytes, in-memory size, address residue
pub fn describe<T: ?Sized>(t: &T) -> Map<String, Value> {
    let mut m = Map::new();
    m.insert("bytes".into(), out::bytes(raw(t)));
    m.insert("sv".into(), out::num(size_of_val(t)));
    m.insert("al".into(), json!((t as *const T).cast::<u8>() as usize % 8));
    m
}

/// as_bytes() of a sized tag at every residue mod 8 its alignment allows
pub fn placements<T: MaybeDynSized + Sized>(t: &T) -> Value {
    let mut res = Vec::new();
    let mut buf = vec![0u64; size_of::<T>() / 8 + 4];
    for r in [0usize, 4] {
        if r % align_of::<T>() != 0 {
            continue;
        }
        let p = unsafe { (buf.as_mut_ptr() as *mut u8).add(r) };
        unsafe { std::ptr::copy_nonoverlapping((t as *const T).cast::<u8>(), p, size_of::<T>()) };
        let r_t: &T = unsafe { &*(p as *const T) };
        let ok = catch_unwind(AssertUnwindSafe(|| r_t.as_bytes().len())).is_ok();
        res.push(json!({"res": r, "ok": ok}));
    }
    Value::Array(res)
}

pub fn mk_meminfo(c: &Value) -> BasicMemoryInfoTag {
    BasicMemoryInfoTag::new(u(c, "memory_lower") as u32, u(c, "memory_upper") as u32)
}

pub fn mk_bootdev(c: &Value) -> BootdevTag {
    BootdevTag::new(u(c, "biosdev") as u32, u(c, "slice") as u32, u(c, "part") as u32)
}

pub fn mk_vbe(c: &Value) -> VBEInfoTag {
    let mut ci = VBEControlInfo::default();
    let sig = out::arg_bytes(c, "ci.signature");
    ci.signature.copy_from_slice(&sig[..4]);
    ci.version = u(c, "ci.version") as u16;
    ci.oem_string_ptr = u(c, "ci.oem_string_ptr") as u32;
    ci.capabilities = VBECapabilities::from_bits_retain(u(c, "ci.capabilities") as u32);
    ci.mode_list_ptr = u(c, "ci.mode_list_ptr") as u32;
    ci.total_memory = u(c, "ci.total_memory") as u16;
    ci.oem_software_revision = u(c, "ci.oem_software_revision") as u16;
    ci.oem_vendor_name_ptr = u(c, "ci.oem_vendor_name_ptr") as u32;
    ci.oem_product_name_ptr = u(c, "ci.oem_product_name_ptr") as u32;
    ci.oem_product_revision_ptr = u(c, "ci.oem_product_revision_ptr") as u32;
    let mut mi = VBEModeInfo::default();
    mi.mode_attributes = VBEModeAttributes::from_bits_retain(u(c, "mi.mode_attributes") as u16);
    mi.window_a_attributes = VBEWindowAttributes::from_bits_retain(u(c, "mi.window_a_attributes") as u8);
    mi.window_b_attributes = VBEWindowAttributes::from_bits_retain(u(c, "mi.window_b_attributes") as u8);
    mi.window_granularity = u(c, "mi.window_granularity") as u16;
    mi.window_size = u(c, "mi.window_size") as u16;
    mi.window_a_segment = u(c, "mi.window_a_segment") as u16;
    mi.window_b_segment = u(c, "mi.window_b_segment") as u16;
    mi.window_function_ptr = u(c, "mi.window_function_ptr") as u32;
    mi.pitch = u(c, "mi.pitch") as u16;
    mi.resolution = (u(c, "mi.resolution.0") as u16, u(c, "mi.resolution.1") as u16);
    mi.character_size = (u(c, "mi.character_size.0") as u8, u(c, "mi.character_size.1") as u8);
    mi.number_of_planes = u(c, "mi.number_of_planes") as u8;
    mi.bpp = u(c, "mi.bpp") as u8;
    mi.number_of_banks = u(c, "mi.number_of_banks") as u8;
    mi.memory_model = match u(c, "mi.memory_model") {
        0 => VBEMemoryModel::Text,
        1 => VBEMemoryModel::CGAGraphics,
        2 => VBEMemoryModel::HerculesGraphics,
        3 => VBEMemoryModel::Planar,
        4 => VBEMemoryModel::PackedPixel,
        5 => VBEMemoryModel::Unchained,
        6 => VBEMemoryModel::DirectColor,
        _ => VBEMemoryModel::YUV,
    };
    mi.bank_size = u(c, "mi.bank_size") as u8;
    mi.number_of_image_pages = u(c, "mi.number_of_image_pages") as u8;
    let fld = |n: &str| VBEField { size: u(c, &format!("mi.{n}.size")) as u8, position: u(c, &format!("mi.{n}.position")) as u8 };
    mi.red_field = fld("red_field");
    mi.green_field = fld("green_field");
    mi.blue_field = fld("blue_field");
    mi.reserved_field = fld("reserved_field");
    mi.direct_color_attributes = VBEDirectColorAttributes::from_bits_retain(u(c, "mi.direct_color_attributes") as u8);
    mi.framebuffer_base_ptr = u(c, "mi.framebuffer_base_ptr") as u32;
    mi.offscreen_memory_offset = u(c, "mi.offscreen_memory_offset") as u32;
    mi.offscreen_memory_size = u(c, "mi.offscreen_memory_size") as u16;
    VBEInfoTag::new(
        u(c, "mode") as u16,
        u(c, "interface_segment") as u16,
        u(c, "interface_offset") as u16,
        u(c, "interface_length") as u16,
        ci,
        mi,
    )
}

pub fn mk_apm(c: &Value) -> ApmTag {
    ApmTag::new(
        u(c, "version") as u16,
        u(c, "cseg") as u16,
        u(c, "offset") as u32,
        u(c, "cset_16") as u16,
        u(c, "dseg") as u16,
        u(c, "flags") as u16,
        u(c, "cseg_len") as u16,
        u(c, "cseg_16_len") as u16,
        u(c, "dseg_len") as u16,
    )
}

pub fn oem(c: &Value) -> [u8; 6] {
    let b = out::arg_bytes(c, "oem_id");
    [b[0], b[1], b[2], b[3], b[4], b[5]]
}

pub fn mk_rsdpv1(c: &Value) -> RsdpV1Tag {
    RsdpV1Tag::new(u(c, "checksum") as u8, oem(c), u(c, "revision") as u8, u(c, "rsdt_address") as u32)
}

pub fn mk_rsdpv2(c: &Value) -> RsdpV2Tag {
    RsdpV2Tag::new(
        u(c, "checksum") as u8,
        oem(c),
        u(c, "revision") as u8,
        u(c, "rsdt_address") as u32,
        u(c, "length") as u32,
        u(c, "xsdt_address"),
        u(c, "ext_checksum") as u8,
    )
}

pub fn hflag(c: &Value) -> h::HeaderTagFlag {
    if u(c, "flags") == 0 {
        h::HeaderTagFlag::Required
    } else {
        h::HeaderTagFlag::Optional
    }
}

pub fn mk_relocatable(c: &Value) -> h::RelocatableHeaderTag {
    let pref = match u(c, "preference") {
        0 => h::RelocatableHeaderTagPreference::None,
        1 => h::RelocatableHeaderTagPreference::Low,
        _ => h::RelocatableHeaderTagPreference::High,
    };
    h::RelocatableHeaderTag::new(hflag(c), u(c, "min_addr") as u32, u(c, "max_addr") as u32, u(c, "align") as u32, pref)
}

pub fn mk_console(c: &Value) -> h::ConsoleHeaderTag {
    let cf = if u(c, "console_flags") == 0 { h::ConsoleHeaderTagFlags::ConsoleRequired } else { h::ConsoleHeaderTagFlags::EgaTextSupported };
    h::ConsoleHeaderTag::new(hflag(c), cf)
}

pub fn mk_address(c: &Value) -> h::AddressHeaderTag {
    h::AddressHeaderTag::new(hflag(c), u(c, "header_addr") as u32, u(c, "load_addr") as u32, u(c, "load_end_addr") as u32, u(c, "bss_end_addr") as u32)
}

pub fn mk_hfb(c: &Value) -> h::FramebufferHeaderTag {
    h::FramebufferHeaderTag::new(hflag(c), u(c, "width") as u32, u(c, "height") as u32, u(c, "depth") as u32)
}

pub fn sized<T: MaybeDynSized + Sized>(t: T, id_const: u64) -> Value {
    let mut m = describe(&t);
    // a value on the stack: what lies behind the declared size is the struct's alignment padding, which no
    // constructor initialises and which differs from build to build; it is reported as zero
    let r = raw(&t);
    if r.len() >= 8 {
        let declared = u32::from_le_bytes([r[4], r[5], r[6], r[7]]) as usize;
        let masked: Vec<u8> = r.iter().enumerate().map(|(i, b)| if i < declared { *b } else { 0 }).collect();
        m.insert("bytes".into(), out::bytes(&masked));
    }
    m.insert("id_const".into(), out::le(id_const, 4));
    m.insert("place".into(), placements(&t));
    out::ok(Value::Object(m))
}

pub fn id_of<T: Tag<IDType = TagType> + ?Sized>() -> u64 {
    u32::from(T::ID) as u64
}

pub fn hid_of<T: Tag<IDType = h::HeaderTagType> + ?Sized>() -> u64 {
    T::ID as u16 as u64
}

/// the fixed-size kinds; None for a kind that needs the allocator
pub fn construct_sized(c: &Value) -> Option<Value> {
    Some(match out::arg_str(c, "kind") {
        "meminfo" => sized(mk_meminfo(c), id_of::<BasicMemoryInfoTag>()),
        "bootdev" => sized(mk_bootdev(c), id_of::<BootdevTag>()),
        "vbe" => sized(mk_vbe(c), id_of::<VBEInfoTag>()),
        "apm" => sized(mk_apm(c), id_of::<ApmTag>()),
        "efi32" => sized(EFISdt32Tag::new(u(c, "sdt_address") as u32), id_of::<EFISdt32Tag>()),
        "efi64" => sized(EFISdt64Tag::new(u(c, "sdt_address")), id_of::<EFISdt64Tag>()),
        "rsdpv1" => sized(mk_rsdpv1(c), id_of::<RsdpV1Tag>()),
        "rsdpv2" => sized(mk_rsdpv2(c), id_of::<RsdpV2Tag>()),
        "efi_bs" => sized(if c["default"].as_bool().unwrap_or(false) { EFIBootServicesNotExitedTag::default() } else { EFIBootServicesNotExitedTag::new() }, id_of::<EFIBootServicesNotExitedTag>()),
        "efi32_ih" => sized(EFIImageHandle32Tag::new(u(c, "image_handle") as u32), id_of::<EFIImageHandle32Tag>()),
        "efi64_ih" => sized(EFIImageHandle64Tag::new(u(c, "image_handle")), id_of::<EFIImageHandle64Tag>()),
        "load_base_addr" => sized(ImageLoadPhysAddrTag::new(u(c, "load_base_addr") as u32), id_of::<ImageLoadPhysAddrTag>()),
        "end" => sized(EndTag::default(), id_of::<EndTag>()),
        "hend" => sized(if c["default"].as_bool().unwrap_or(false) { h::EndHeaderTag::default() } else { h::EndHeaderTag::new() }, hid_of::<h::EndHeaderTag>()),
        "address" => sized(mk_address(c), hid_of::<h::AddressHeaderTag>()),
        "entry" => sized(h::EntryAddressHeaderTag::new(hflag(c), u(c, "entry_addr") as u32), hid_of::<h::EntryAddressHeaderTag>()),
        "entry_efi32" => sized(h::EntryEfi32HeaderTag::new(hflag(c), u(c, "entry_addr") as u32), hid_of::<h::EntryEfi32HeaderTag>()),
        "entry_efi64" => sized(h::EntryEfi64HeaderTag::new(hflag(c), u(c, "entry_addr") as u32), hid_of::<h::EntryEfi64HeaderTag>()),
        "console" => sized(mk_console(c), hid_of::<h::ConsoleHeaderTag>()),
        "hfb" => sized(mk_hfb(c), hid_of::<h::FramebufferHeaderTag>()),
        "module_align" => sized(h::ModuleAlignHeaderTag::new(hflag(c)), hid_of::<h::ModuleAlignHeaderTag>()),
        "hefi_bs" => sized(h::EfiBootServiceHeaderTag::new(hflag(c)), hid_of::<h::EfiBootServiceHeaderTag>()),
        "relocatable" => sized(mk_relocatable(c), hid_of::<h::RelocatableHeaderTag>()),
        _ => return None,
    })
}
