//! Type-identifier conversions (C20): From / Into / PartialEq among u32, TagTypeId, TagType;
//! MemoryAreaTypeId / MemoryAreaType; ELF section type classification; MAGIC constants.

use crate::out;
use multiboot2::{MemoryAreaType, MemoryAreaTypeId, TagType, TagTypeId};
use serde_json::{json, Value};

/// variant name without payload ("Custom(7)" -> "Custom")
fn variant<T: std::fmt::Debug>(t: &T) -> String {
    let s = format!("{t:?}");
    s.split('(').next().unwrap_or("").to_string()
}

pub fn tag_type(x: u32, y: u32) -> Value {
    let t = TagType::from(x);
    let id = TagTypeId::from(x);
    let ty = TagType::from(y);
    let idy = TagTypeId::from(y);
    let eqs = [
        id == y,
        y == id,
        t == y,
        y == t,
        t == idy,
        idy == t,
        id == idy,
        t == ty,
    ];
    // an explicitly constructed Custom(x) (not canonical when x names a specified type): still numerically x
    let c = TagType::Custom(x);
    let nc = [c == id, id == c, c == x, x == c, u32::from(c) == x, c.val() == x, u32::from(TagTypeId::from(c)) == x];
    json!({
        "k": "conv",
        "nc": nc.iter().map(|b| if *b { 1 } else { 0 }).collect::<Vec<_>>(),
        "variant": variant(&t),
        "back": out::le(u32::from(t) as u64, 4),
        "val": out::le(t.val() as u64, 4),
        "id_back": out::le(u32::from(id) as u64, 4),
        "id_new": out::le(u32::from(TagTypeId::new(x)) as u64, 4),
        "via_id": variant(&TagType::from(id)),
        "via_id_back": out::le(u32::from(TagTypeId::from(t)) as u64, 4),
        "custom_payload": match t { TagType::Custom(c) => out::le(c as u64, 4), _ => json!([]) },
        "eqs": eqs.iter().map(|b| if *b { 1 } else { 0 }).collect::<Vec<_>>(),
    })
}

pub fn mem_area_type(x: u32, y: u32) -> Value {
    let id = MemoryAreaTypeId::from(x);
    let t = MemoryAreaType::from(id);
    let idy = MemoryAreaTypeId::from(y);
    let ty = MemoryAreaType::from(idy);
    let eqs = [id == ty, ty == id, id == idy, t == ty];
    let c = MemoryAreaType::Custom(x);
    let nc = [id == c, c == id, u32::from(MemoryAreaTypeId::from(c)) == x];
    json!({
        "k": "conv",
        "nc": nc.iter().map(|b| if *b { 1 } else { 0 }).collect::<Vec<_>>(),
        "variant": variant(&t),
        "back": out::le(u32::from(MemoryAreaTypeId::from(t)) as u64, 4),
        "id_back": out::le(u32::from(id) as u64, 4),
        "custom_payload": match t { MemoryAreaType::Custom(c) => out::le(c as u64, 4), _ => json!([]) },
        "eqs": eqs.iter().map(|b| if *b { 1 } else { 0 }).collect::<Vec<_>>(),
    })
}

#[repr(C, align(8))]
struct ElfImage([u8; 176]);

/// Classification of a raw ELF section type: a two-entry section table (first entry an ordinary program
/// section, second entry of the raw type) is loaded and iterated, once with 40-byte (ELF32) and once with
/// 64-byte (ELF64) entries. Returns the discriminant of section_type() of the second section, or None when
/// that entry is skipped as unused. Both layouts must agree.
pub fn elf_class(raw: u32) -> Option<u32> {
    let a = elf_class_with(raw, 40);
    let b = elf_class_with(raw, 64);
    assert_eq!(a, b, "ELF32 and ELF64 tables classify the same raw type differently");
    a
}

fn elf_class_with(raw: u32, es: usize) -> Option<u32> {
    let mut img = ElfImage([0u8; 176]);
    let b = &mut img.0;
    let tag = 20 + 2 * es; // 100 or 148
    let total = 8 + (tag + 7) / 8 * 8 + 8; // 120 or 168
    b[0..4].copy_from_slice(&(total as u32).to_le_bytes());
    b[8..12].copy_from_slice(&9u32.to_le_bytes());
    b[12..16].copy_from_slice(&(tag as u32).to_le_bytes());
    b[16..20].copy_from_slice(&2u32.to_le_bytes()); // two sections
    b[20..24].copy_from_slice(&(es as u32).to_le_bytes());
    b[24..28].copy_from_slice(&0u32.to_le_bytes()); // shndx
    b[28 + 4..28 + 8].copy_from_slice(&1u32.to_le_bytes()); // first entry: a program section
    b[28 + es + 4..28 + es + 8].copy_from_slice(&raw.to_le_bytes());
    b[total - 8..total - 4].copy_from_slice(&0u32.to_le_bytes());
    b[total - 4..total].copy_from_slice(&8u32.to_le_bytes());
    let bi = unsafe { multiboot2::BootInformation::load(b.as_ptr().cast()) }.expect("static ELF image loads");
    let tag = bi.elf_sections_tag().expect("ELF tag present");
    let mut it = tag.sections();
    let first = it.next().expect("first section");
    assert_eq!(first.section_type_raw(), 1);
    it.next().map(|s| {
        assert_eq!(s.section_type_raw(), raw);
        s.section_type() as u32
    })
}

pub fn dispatch(op: &str, call: &Value) -> Option<Value> {
    Some(match op {
        "conv_tag_type" => tag_type(out::arg_u64(call, "x") as u32, out::arg_u64(call, "y") as u32),
        "conv_mem_area_type" => mem_area_type(out::arg_u64(call, "x") as u32, out::arg_u64(call, "y") as u32),
        "conv_elf_type" => match elf_class(out::arg_u64(call, "x") as u32) {
            None => json!({"k": "conv", "class": "unused"}),
            Some(d) => json!({"k": "conv", "class": "used", "disc": out::le(d as u64, 4)}),
        },
        "magic" => json!({"k": "conv", "info": out::le(multiboot2::MAGIC as u64, 4), "header": out::le(multiboot2_header::MAGIC as u64, 4),
                          "htag_count": out::le(multiboot2_header::HeaderTagType::count() as u64, 4)}),
        _ => return None,
    })
}
