//! Call vocabulary: one function per specification action, executed on the
//! real crates. Every call returns a projected outcome (see out.rs).

#[cfg(feature = "builder")]
pub mod build;
pub mod common;
pub mod conv;
pub mod ctor;
pub mod custom;
pub mod elf;
pub mod header;
pub mod info;
pub mod sweep;

use crate::out;
use serde_json::{json, Value};
use std::collections::HashMap;
use std::fs::File;
use std::panic::{catch_unwind, AssertUnwindSafe};

pub enum It {
    Tags(multiboot2::TagIter<'static>),
    Mods(multiboot2::ModuleIter<'static>),
    Efi(Box<dyn EfiIter>),
    Elf(multiboot2::ElfSectionIter<'static>),
    HTags(multiboot2_header::TagIter<'static>),
    Dummy(multiboot2_common::TagIter<'static, multiboot2_common::test_utils::DummyTestHeader>),
}

/// `EFIMemoryAreaIter` is not exported by the crate, so it is held type-erased.
pub trait EfiIter {
    fn next_(&mut self) -> Option<&'static multiboot2::EFIMemoryDesc>;
    fn len_(&self) -> usize;
    fn size_hint_(&self) -> (usize, Option<usize>);
    fn clone_(&self) -> Box<dyn EfiIter>;
    fn dbg_(&self) -> String;
    fn nth_(&mut self, n: usize) -> Option<&'static multiboot2::EFIMemoryDesc>;
    fn count_(&self) -> usize;
    fn last_(&self) -> Option<&'static multiboot2::EFIMemoryDesc>;
}

impl<T> EfiIter for T
where
    T: ExactSizeIterator<Item = &'static multiboot2::EFIMemoryDesc> + Clone + std::fmt::Debug + 'static,
{
    fn next_(&mut self) -> Option<&'static multiboot2::EFIMemoryDesc> {
        self.next()
    }
    fn len_(&self) -> usize {
        self.len()
    }
    fn size_hint_(&self) -> (usize, Option<usize>) {
        self.size_hint()
    }
    fn clone_(&self) -> Box<dyn EfiIter> {
        Box::new(self.clone())
    }
    fn dbg_(&self) -> String {
        format!("{self:?}")
    }
    fn nth_(&mut self, n: usize) -> Option<&'static multiboot2::EFIMemoryDesc> {
        self.nth(n)
    }
    fn count_(&self) -> usize {
        self.clone().count()
    }
    fn last_(&self) -> Option<&'static multiboot2::EFIMemoryDesc> {
        self.clone().last()
    }
}

pub struct Ctx {
    pub base: *const u8,
    pub len: usize,
    pub bi: Option<multiboot2::BootInformation<'static>>,
    pub hdr: Option<multiboot2_header::Multiboot2Header<'static>>,
    pub its: HashMap<u64, It>,
    pub ext: Option<(usize, usize)>,
    #[cfg(feature = "builder")]
    pub bld: Option<multiboot2::Builder>,
    #[cfg(feature = "builder")]
    pub hbld: Option<multiboot2_header::Builder>,
    #[cfg(feature = "builder")]
    pub built: Option<Box<multiboot2::DynSizedStructure<multiboot2::BootInformationHeader>>>,
    #[cfg(feature = "builder")]
    pub hbuilt: Option<Box<multiboot2::DynSizedStructure<multiboot2_header::Multiboot2BasicHeader>>>,
    /// a copy of a built structure at a chosen address residue (use_built with "res")
    pub copy: Option<Vec<u64>>,
}

impl Ctx {
    pub fn new(base: *const u8, len: usize) -> Ctx {
        Ctx {
            base,
            len,
            bi: None,
            hdr: None,
            its: HashMap::new(),
            ext: None,
            #[cfg(feature = "builder")]
            bld: None,
            #[cfg(feature = "builder")]
            hbld: None,
            #[cfg(feature = "builder")]
            built: None,
            #[cfg(feature = "builder")]
            hbuilt: None,
            copy: None,
        }
    }

    /// image-relative offset of a pointer (clamped; never an absolute address)
    pub fn off<T: ?Sized>(&self, p: *const T) -> Value {
        let a = p.cast::<u8>() as usize as i128;
        json!(out::clamp(a - self.base as usize as i128))
    }

    pub fn slice(&self) -> &'static [u8] {
        unsafe { std::slice::from_raw_parts(self.base, self.len) }
    }

    /// The loaded boot information with the lifetime the image really has
    /// (the image stays mapped and unchanged for the whole case).
    pub fn bi_ref(&self) -> Option<&'static multiboot2::BootInformation<'static>> {
        self.bi
            .as_ref()
            .map(|b| unsafe { &*(b as *const multiboot2::BootInformation<'static>) })
    }

    pub fn hdr_ref(&self) -> Option<&'static multiboot2_header::Multiboot2Header<'static>> {
        self.hdr
            .as_ref()
            .map(|b| unsafe { &*(b as *const multiboot2_header::Multiboot2Header<'static>) })
    }

    pub fn ext_json(&self) -> Option<Value> {
        None
    }
}

/// Maps the case's external memory (ELF string table) at the fixed address the case names.
pub fn prepare(ctx: &mut Ctx, case: &Value) {
    let ext = &case["ext"];
    if !ext.is_object() {
        return;
    }
    let addr = out::arg_u64(ext, "addr") as usize;
    let data = out::arg_bytes(ext, "data");
    let len = 4096;
    assert!(data.len() < len && addr % 4096 == 0);
    unsafe {
        // mapped once per worker process (never over an existing mapping); later cases reuse it
        static MAPPED_AT: std::sync::atomic::AtomicUsize = std::sync::atomic::AtomicUsize::new(0);
        let prev = MAPPED_AT.load(std::sync::atomic::Ordering::Relaxed);
        if prev != addr {
            let p = libc::mmap(
                addr as *mut _,
                len,
                libc::PROT_READ | libc::PROT_WRITE,
                libc::MAP_PRIVATE | libc::MAP_ANONYMOUS | libc::MAP_FIXED_NOREPLACE,
                -1,
                0,
            );
            if p as usize != addr {
                eprintln!("cannot map external memory at {addr:#x} (tool error)");
                std::process::exit(3);
            }
            MAPPED_AT.store(addr, std::sync::atomic::Ordering::Relaxed);
        }
        let p = addr as *mut u8;
        std::ptr::write_bytes(p, 0, len);
        std::ptr::copy_nonoverlapping(data.as_ptr(), p, data.len());
    }
    ctx.ext = Some((addr, data.len()));
}

pub fn finish(_ctx: &mut Ctx, _f: &mut File, _run: usize) {}

pub fn perform(ctx: &mut Ctx, call: &Value) -> Value {
    let op = call["op"].as_str().unwrap_or("").to_string();
    match catch_unwind(AssertUnwindSafe(|| dispatch(ctx, &op, call))) {
        Ok(v) => v,
        Err(_) => json!({"k": "panic"}),
    }
}

fn dispatch(ctx: &mut Ctx, op: &str, call: &Value) -> Value {
    if let Some(v) = common::dispatch(ctx, op, call) {
        return v;
    }
    if let Some(v) = info::dispatch(ctx, op, call) {
        return v;
    }
    if let Some(v) = header::dispatch(ctx, op, call) {
        return v;
    }
    if op == "construct" {
        if let Some(v) = ctor::construct_sized(call) {
            return v;
        }
    }
    #[cfg(feature = "builder")]
    if let Some(v) = build::dispatch(ctx, op, call) {
        return v;
    }
    if let Some(v) = custom::dispatch(ctx, op, call) {
        return v;
    }
    if let Some(v) = conv::dispatch(op, call) {
        return v;
    }
    out::unsupported()
}
