"""Which corpora (TLC models) decide which property, per tier.

A corpus is one bounded TLC model (spec/MC_<name>.tla): TLC checks the reference
design against the declarative properties on it and exports every explored case;
the cases are replayed on the real crates and the recorded trace is judged by TLC
again (spec/Trace.tla). A VIOL line names the properties whose predicate rejected
the event; a check reports those that name its own property."""

DEV_REL = ["dev+b", "rel+b"]

CORPORA = {
    "refslice": dict(model="MC_RefSlice",
                     quick=dict(MaxLen=24, MaxDecl=40), thorough=dict(MaxLen=40, MaxDecl=56),
                     profiles=DEV_REL, place="both"),
}

# property -> list of corpus names; nontrivial rule used for evidence
CHECKS = {
    "C14": dict(corpora=["refslice"],
                rule="cases = all (header kind, slice length, start alignment, declared size) in bounds; "
                     "non-trivial = distinct cases whose specified outcome is not ShorterThanHeader"),
}

DEFAULT_TECHNIQUE = "TLA+ specification + TLC model checking + TLC trace validation of replayed cases"
DEFAULT_LEVEL_TEXT = ("Bounded-exhaustive model checking with TLC: the reference design in spec/ is checked against the property's "
                      "declarative predicate on every case inside the stated bounds, every explored case is replayed on the real crates "
                      "(dev and release builds, guard-paged memory), and every recorded outcome is judged by TLC against the same predicate. "
                      "Exhaustive inside the bounds, silent outside them.")
DEFAULT_LEVEL_NOTE = ("Trusted: TLC/SANY, CommunityModules Json, the harness projection of results (offsets relative to the image, "
                      "little-endian byte lists, outcome classes), guard pages for out-of-bounds reads. Bounds per corpus are in the evidence file.")
NOT_CLAIMED = {}
