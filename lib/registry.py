"""Which corpora (TLC models) decide which property, per tier.

A corpus is one bounded TLC model (spec/MC_<name>.tla): TLC checks the reference
design against the declarative properties on it and exports every explored case;
the cases are replayed on the real crates and the recorded trace is judged by TLC
again (spec/Trace.tla). A VIOL line names the properties whose predicate rejected
the event; a check reports those that name its own property."""

DEV_REL = ["dev+b", "rel+b"]
ALL_CFGS = ["dev+b", "rel+b", "dev-b", "rel-b"]

CORPORA = {
    # C08 scope: the two crates' own header kinds (DummyTestHeader is a test utility of multiboot2-common)
    "refslice8": dict(model="MC_RefSlice", quick=dict(MaxLen=24, MaxDecl=40, HeaderNames='{"bi", "tag", "mb", "htag"}'),
                      thorough=dict(MaxLen=40, MaxDecl=56, HeaderNames='{"bi", "tag", "mb", "htag"}'), profiles=DEV_REL, place="end"),
    # the header crate's two header types only (C09: a header tag or header parsed standalone stays inside its slice)
    "hrefslice": dict(model="MC_RefSlice", quick=dict(MaxLen=24, MaxDecl=40, HeaderNames='{"mb", "htag"}'),
                      thorough=dict(MaxLen=40, MaxDecl=56, HeaderNames='{"mb", "htag"}'), profiles=DEV_REL, place="both"),
    "refslice": dict(model="MC_RefSlice",
                     quick=dict(MaxLen=24, MaxDecl=40), thorough=dict(MaxLen=40, MaxDecl=56),
                     profiles=DEV_REL, place="both"),
    "fields": dict(model="MC_Fields", quick={}, thorough={}, profiles=DEV_REL, place="both"),
    "getters": dict(model="MC_Getters", quick=dict(MaxTags=3), thorough=dict(MaxTags=4), profiles=DEV_REL, place="end"),
    "dst": dict(model="MC_Dst", quick=dict(DstExtra=9), thorough=dict(DstExtra=33), profiles=DEV_REL, place="both"),
    "fb": dict(model="MC_Fb", quick={}, thorough={}, profiles=DEV_REL, place="both"),
    "efi": dict(model="MC_Efi", quick=dict(MaxD=56, LCap=64), thorough=dict(MaxD=96, LCap=128), profiles=DEV_REL, place="both"),
    # a thin slice of the EFI corpus for C05 (extents of what iteration and Debug hand out): sizes around the 40-byte descriptor
    "efi5": dict(model="MC_Efi", quick=dict(MaxD=56, LCap=64, EfiSizeSet="{0, 8, 24, 39, 40, 48}"), thorough=dict(MaxD=128, LCap=200, EfiSizeSet="{0, 1, 8, 16, 24, 32, 39, 40, 41, 48, 56, 64, 80}"),
                 profiles=DEV_REL, place="both"),
    "elf": dict(model="MC_Elf", quick=dict(MaxN=3, ElfRots="{0, 3, 6, 7}"), thorough=dict(MaxN=4, ElfSizes="{0, 1, 8, 24, 39, 40, 41, 48, 63, 64, 65, 72, 128}", ElfRots="{0, 3, 5, 7}"),
                profiles=DEV_REL, place="both"),
    "hload": dict(model="MC_Header", cfg="MC_HLoad", quick=dict(MaxLen=64), thorough=dict(MaxLen=160), profiles=DEV_REL, place="both"),
    "hwalk": dict(model="MC_Header", cfg="MC_HWalk", quick=dict(MaxL=32), thorough=dict(MaxL=48), profiles=DEV_REL, place="both"),
    "hfields": dict(model="MC_Header", cfg="MC_HFields", quick={}, thorough={}, profiles=DEV_REL, place="both"),
    "hgetters": dict(model="MC_Header", cfg="MC_HGetters", quick=dict(MaxTags=3), thorough=dict(MaxTags=4), profiles=DEV_REL, place="end"),
    "hdst": dict(model="MC_Header", cfg="MC_HDst", quick={}, thorough={}, profiles=DEV_REL, place="both"),
    "find": dict(model="MC_Header", cfg="MC_Find", quick={}, thorough=dict(
                     FindLens="{0, 1, 3, 4, 7, 8, 11, 12, 15, 16, 20, 24, 32, 64, 8176, 8180, 8184, 8188, 8191, 8192, 8193, 8196, 8200, 8204, 8208, 16384, 32768, 32776, 65536, 131072}",
                     FindPos="{0, 1, 2, 4, 7, 8, 12, 16, 24, 8168, 8176, 8180, 8184, 8185, 8188, 8189, 8190, 8191, 8192, 8196, 8200, 8208}"),
                 profiles=DEV_REL, place="both"),
    "cks": dict(model="MC_Header", cfg="MC_Cks", quick={}, thorough={}, profiles=DEV_REL, place="end"),
    "ctor": dict(model="MC_Build", cfg="MC_Ctor", quick=dict(MaxContent=17, BigPalettes="{257, 21847, 21848, 65537, 65538}"), thorough=dict(MaxContent=40, BigPalettes="{257, 21847, 21848, 21849, 65537, 65538}"), profiles=DEV_REL, place="end"),
    "ctorsized": dict(model="MC_Build", cfg="MC_CtorSized", quick=dict(MaxContent=1), thorough=dict(MaxContent=1), profiles=ALL_CFGS, place="end"),
    # very many small tags, calls on a 256 KiB stack (4096: between the dev and release depths of a recursive skip; 70000: beyond 2^16)
    "tile": dict(model="MC_Tile", quick=dict(TileNs="{1, 2000, 4096, 70000}", TileStack=262144), thorough=dict(TileNs="{1, 2000, 4096, 70000, 100000}", TileStack=262144),
                 profiles=DEV_REL, place="end"),
    "boxed": dict(model="MC_Build", cfg="MC_Boxed", quick=dict(MaxTotal=8), thorough=dict(MaxTotal=17), profiles=DEV_REL, place="end"),
    "builder": dict(model="MC_Build", cfg="MC_Builder", quick=dict(MaxSeq=2), thorough=dict(MaxSeq=3), profiles=DEV_REL, place="end"),
    "hbuilder": dict(model="MC_Build", cfg="MC_HBuilder", quick=dict(MaxSeq=3, BigRequests="{2039, 2040, 2041}"), thorough=dict(MaxSeq=4, BigRequests="{2039, 2040, 2041, 3000}"), profiles=DEV_REL, place="end"),
    "str": dict(model="MC_Str", quick=dict(MaxStr=3), thorough=dict(MaxStr=4, StrKinds='{"cmdline"}'), profiles=DEV_REL, place="both"),
    "typeids": dict(model="MC_TypeIds", quick={}, thorough={}, profiles=DEV_REL, place="end"),
    "rsdp": dict(model="MC_Rsdp", quick={}, thorough={}, profiles=DEV_REL, place="both"),
    "sized": dict(model="MC_Sized", quick=dict(SizedSpread=9), thorough=dict(SizedSpread=17), profiles=DEV_REL, place="both"),
    "adv": dict(model="MC_Adv", quick={}, thorough={}, profiles=DEV_REL, place="both"),
    "round8": dict(model="MC_Round8", quick={}, thorough={}, profiles=DEV_REL, place="end"),
    "custom": dict(model="MC_Custom", quick=dict(MaxSize=96), thorough=dict(MaxSize=96), profiles=DEV_REL, place="both"),
    "proto": dict(model="MC_Proto", quick=dict(Depth=3), thorough=dict(Depth=4), profiles=DEV_REL, place="end"),
    "big": dict(model="MC_Big", quick=dict(MaxPow=20, HugeLen8s="{134217728, 268435455, 268435456, 268435457, 536870911}"), thorough=dict(MaxPow=21, HugeLen8s="{134217728, 201326592, 268435455, 268435456, 268435457, 402653184, 536870911}"), profiles=DEV_REL, place="both"),
    "mut": dict(kind="mutate", base=["fields", "getters", "dst", "sized", "efi", "elf", "fb", "rsdp", "str", "walk"],
                quick=dict(count=1500), thorough=dict(count=60000), profiles=DEV_REL, place="both"),
    "hmut": dict(kind="mutate", header=True, base=["hfields", "hgetters", "hdst", "hwalk"],
                 quick=dict(count=1500), thorough=dict(count=40000), profiles=DEV_REL, place="both"),
    "bgen": dict(kind="mutate", gen="builder_cases", base=["builder"], quick=dict(count=600), thorough=dict(count=15000), profiles=DEV_REL, place="end"),
    "hbgen": dict(kind="mutate", gen="hbuilder_cases", base=["hbuilder"], quick=dict(count=1500), thorough=dict(count=20000), profiles=DEV_REL, place="end"),
    "utf8": dict(model="MC_Utf8", quick=dict(MaxLen=3), thorough=dict(MaxLen=3), profiles=DEV_REL, place="end"),
    "session": dict(kind="mutate", gen="session_cases", gen_all_files=True, base=["builder", "fields"],
                    quick=dict(count=300), thorough=dict(count=6000), profiles=DEV_REL, place="end"),
    "findbytes": dict(model="MC_FindBytes", quick=dict(SmallLen=7), thorough=dict(SmallLen=8), profiles=DEV_REL, place="both"),
    "hsession": dict(kind="mutate", gen="hsession_cases", gen_all_files=True, base=["hbuilder", "hfields"],
                     quick=dict(count=300), thorough=dict(count=5000), profiles=DEV_REL, place="end"),
    "perm": dict(kind="mutate", gen="perm_cases", gen_all_files=True, base=["fields", "getters", "dst", "sized", "efi", "elf", "fb", "rsdp", "adv"],
                 quick=dict(count=1500), thorough=dict(count=40000), profiles=DEV_REL, place="end"),
    "hperm": dict(kind="mutate", gen="perm_cases", gen_all_files=True, base=["hfields", "hgetters", "hdst", "hwalk"],
                  quick=dict(count=1000), thorough=dict(count=20000), profiles=DEV_REL, place="end"),
    "xcast": dict(model="MC_XCast", quick={}, thorough={}, profiles=DEV_REL, place="both"),
    "repo": dict(kind="mutate", gen="repo_cases", gen_all_files=True, base=["fields", "hfields"],
                 quick=dict(count=0), thorough=dict(count=0), profiles=DEV_REL, place="both"),
    "load": dict(model="MC_Load", quick=dict(MaxT=72), thorough=dict(MaxT=160), profiles=DEV_REL, place="both"),
    "walk": dict(model="MC_Walk", quick=dict(MaxT=32), thorough=dict(MaxT=40), profiles=DEV_REL, place="both"),
}

# property -> list of corpus names; nontrivial rule used for evidence
PARSE_CORPORA = ["adv", "big", "load", "walk", "fields", "getters", "dst", "sized", "fb", "rsdp", "efi", "elf", "str",
                 "hload", "hwalk", "hfields", "hgetters", "hdst", "find", "findbytes", "cks", "refslice8", "typeids", "ctorsized", "tile"]

CHECKS = {
    "C08": dict(technique="TLC-generated cases replayed by four builds (dev/release x builder feature on/off); TLC (spec/Trace8.tla) compares every "
                          "outcome across the builds",
                corpora=PARSE_CORPORA, agree=ALL_CFGS,
                rule="every parse-side corpus (boot information and header: loading, walking, getters, fields, iterators, strings, "
                     "find_header, checksum, ref_from_slice, conversions) replayed by four harness builds (dev/release x builder feature "
                     "on/off); every outcome of every call compared across the builds by TLC (spec/Trace8.tla)"),
    "C20": dict(technique="TLA+ specification (per-value operators + interval tables checked against each other by TLC) + TLC trace validation of "
                          "boundary cases + native sweep of the 32-bit domain against the tables TLC exports",
                corpora=["typeids", "fb"],
                # native sweeps against the interval tables exported by MC_TypeIds: (which, table, quick stride, thorough stride)
                sweeps=[("tag_type", "tag_type", 1, 1), ("mem_area_type", "mem_area_type", 1, 1), ("elf_type", "elf_type", 1, 1)],
                sweep_model="typeids",
                rule="TLC-judged: every interval end point +-2 of the three classification tables and structured values, each with 3 partner "
                     "values for the equality relations; all 256 framebuffer type bytes; native sweep of all 2^32 u32 values "
                     "thorough tier) against the interval tables exported from the specification"),
    "C15": dict(thorough_extra=["mut"], corpora=["custom", "xcast", "dst", "sized", "hdst", "fields", "getters"],
                rule="user-defined family (sized tags with 0..6 extra words; DST tails with element sizes 1,2,3,4,8,24 x fixed parts 8..24) "
                     "x all tag sizes 8..96 through the public get_tag; every built-in kind of both crates viewed at every declared size (variable-length kinds 0..base+3*elem+DstExtra, "
                     "header-tag kinds 0..40) and at its conformant size; non-trivial = casts that return a view"),
    "C17": dict(thorough_extra=["mut"], corpora=["str", "utf8", "ctor", "dst"],
                rule="parse: all strings of length <= MaxStr over a 10-byte alphabet (NUL, ASCII, pieces of 2/3/4-byte sequences, invalid bytes) "
                     "x every cut of the declared size x 3 string kinds; build: texts of length 0..MaxContent with and without trailing NUL"),
    "C06": dict(corpora=["builder", "bgen", "session"],
                rule="all call sequences up to MaxSeq over 7 representative slots x 2 contents; every one of the 22 slots alone and in all ordered pairs; "
                     "seeded random subsets / orders / repeated calls of all 22 slots, the full set and every all-but-one subset (native generator "
                     "recombining the specification's argument records; NOT all 2^22 subsets)"),
    "C07": dict(corpora=["ctor", "ctorsized", "builder", "hbuilder", "session"],
                rule="every public constructor of both crates x 2 byte-marked argument sets; variable-length kinds with content lengths 0..MaxContent; "
                     "constructors reached through the builders' setters as well"),
    "C12": dict(corpora=["hbuilder", "hbgen", "hsession"],
                rule="all 2^10 subsets of the header builder's slots x both architectures; all call sequences of length 2..MaxSeq over 3 slots x 2 contents"),
    "C16": dict(corpora=["boxed", "ctor", "refslice"],
                rule="new_boxed on all partitions of content of total length 0..MaxTotal into <= 3 slices x 3 header kinds (each also cloned); "
                     "every heap-allocated tag kind x content lengths 0..MaxContent constructed, cloned and dropped under a tracking allocator"),
    "C09": dict(laws=[("APA_Iter", "Init", "IndInv", 1), ("APA_Iter", "IndInit", "IndInv", 1)], corpora=["hwalk", "hdst", "hfields", "hgetters", "hload", "hmut", "hperm", "hrefslice"],
                rule="all lazily chosen header-tag sequences (4 type/flag pairs, sizes 0..remaining+9), every header-tag kind at every "
                     "declared size 0..40, conformant tags; every call checked for crash/hang and extents inside the declared header"),
    "C10": dict(technique="TLA+ specification + TLC model checking + TLC trace validation of replayed cases; checksum law: Apalache on the specification "
                          "operators (integer and 16-bit-limb form) over the full domain + native sweep of all 2^32 lengths x both architectures",
                corpora=["hload", "cks", "big", "boxed"],
                sweeps=[("checksum", None, 1, 1)], laws=["CkLaw", "LimbLaw"],
                rule="all (length 0..MaxLen, magic right/one-bit-off/zero, checksum right/+1/-1/zero, both architectures) + null; "
                     "calc_checksum on 54 boundary (magic, arch, length) triples judged on 16-bit limbs; all 2^32 lengths x both architectures "
                     "(Multiboot2 magic; two more magics on a sub-grid) swept natively against the congruence the property states"),
    "C11": dict(thorough_extra=["hmut", "hsession", "repo"], corpora=["hfields", "hgetters", "hwalk"],
                rule="every header-tag kind conformant x 5 fills x 2 positions x 2 architectures, every accessor, and the tag viewed by "
                     "position through every sized kind's struct (hview: every accessor of every same-size view, typ() of the others, "
                     "the end tag, a position behind the walk); all tag sequences <= MaxTags over 4 kinds; all lazily chosen walks"),
    "C13": dict(corpora=["find", "findbytes"],
                rule="structural buffers: all (buffer length, magic position or none, stored header length) combinations around the "
                     "8192 window, a later second magic, misaligned buffers"),
    "C18": dict(thorough_extra=["mut"], corpora=["efi"],
                rule="all (descriptor size 0..MaxD, version 0..2, map length 0..min(3d+9, LCap)); each with the environment plan "
                     "create / len / size_hint / next past the naive count / clone / Debug"),
    "C19": dict(thorough_extra=["mut"], corpora=["elf", "tile"],
                rule="all (count 0..MaxN, entry size in ElfSizes, string-table index 0..n+1, section bytes in {0, n*es-1, n*es, n*es+8}, "
                     "raw-type rotation); names resolved through a string table mapped at a fixed external address"),
    "C01": dict(corpora=["fields", "getters", "dst", "sized", "custom", "fb", "rsdp", "adv", "efi", "elf", "walk", "load", "mut", "perm", "xcast", "repo", "tile"],
                rule="union of the boot-information corpora (every kind, every declared size, all framebuffer type bytes, "
                     "all walks); every call of every session is checked for crash/hang and for extents inside the owning tag"),
    "C04": dict(thorough_extra=["mut", "session"], corpora=["fields", "getters", "fb", "rsdp", "elf", "repo"],
                rule="fields: every kind at its conformant size x 2 marker fills x 2 positions, every accessor; "
                     "getters: all sequences of <= MaxTags tags over 6 kinds (duplicates use different fills); fb: all 256 type bytes"),
    "C05": dict(thorough_extra=["mut"], corpora=["dst", "fb", "hdst", "adv", "elf", "efi5"],
                rule="every variable-length kind x every declared size 0..base+3*elem+DstExtra and three sizes beyond the region, "
                     "marker bytes in padding and in the neighbouring tag; ELF tables and EFI maps (sizes around the 40-byte descriptor) with the tag "
                     "first or last in the region: whatever iteration (own method, deprecated getter, nth, last) and Debug hand out"),
    "C02": dict(corpora=["load", "big"],
                rule="cases = all (total size, reserved word, last-8-bytes type/size) in bounds + null pointer; "
                     "non-trivial = every case (each has a distinct specified outcome class or size); structural regions with total sizes "
                     "around every power of two from 128 bytes to 1 MiB (2 MiB thorough), end tag right / wrong"),
    "C03": dict(thorough_extra=["mut"], corpora=["walk", "proto", "load", "tile"],
                # unbounded (regions and sizes up to 2^32): the cursor machine's inductive invariant, base case and induction step
                laws=[("APA_Iter", "Init", "IndInv", 1), ("APA_Iter", "IndInit", "IndInv", 1)],
                rule="cases = all lazily chosen header sequences (type in {0,3,99}, size 0..remaining+9) of regions up to MaxT; "
                     "each drained by a tag iterator, a mid-walk clone and the module iterator; histories: all interleavings of length Depth of "
                     "next/clone on two tag iterators, a clone slot, a module iterator and its clone over 8 representative regions"),
    "C14": dict(technique="TLA+ specification + TLC model checking + TLC trace validation of replayed cases; rounding function: Apalache law on the "
                          "specification operator over the full domain + native 2^32 sweep of the implementation against the stated law",
                corpora=["refslice", "round8"],
                sweeps=[("round8", None, 1, 1)], laws=["RoundLaw"],
                rule="cases = all (header kind, slice length, start alignment, declared size) in bounds; "
                     "non-trivial = distinct cases whose specified outcome is not ShorterThanHeader; rounding function: 250 values around "
                     "multiples of 8 and powers of two judged by TLC, all 2^32 arguments swept natively against the law the property states"),
}

DEFAULT_TECHNIQUE = "TLA+ specification + TLC model checking + TLC trace validation of replayed cases"
DEFAULT_LEVEL_TEXT = ("Bounded-exhaustive model checking with TLC: the reference design in spec/ is checked against the property's "
                      "declarative predicate on every case inside the stated bounds, every explored case is replayed on the real crates "
                      "(dev and release builds, guard-paged memory), and every recorded outcome is judged by TLC against the same predicate. "
                      "Exhaustive inside the bounds, silent outside them.")
DEFAULT_LEVEL_NOTE = ("Trusted: TLC/SANY, CommunityModules Json, the harness projection of results (offsets relative to the image, "
                      "little-endian byte lists, outcome classes), guard pages for out-of-bounds reads. Bounds per corpus are in the evidence file.")
NOT_CLAIMED = {}
