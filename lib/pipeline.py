"""Pipeline shared by all checks:  TLC model -> cases -> harness replay -> TLC trace validation.

Nothing in here knows what a correct outcome looks like: the only oracle is the
TLA+ specification evaluated by TLC (spec/Trace.tla + spec/MB2Api.tla)."""
import hashlib, json, os, re, shutil, subprocess, sys, time
from concurrent.futures import ThreadPoolExecutor

VERIF = os.path.dirname(os.path.dirname(os.path.abspath(__file__)))
SPEC = os.path.join(VERIF, "spec")
HARNESS = os.path.join(VERIF, "harness")
WORK = os.path.join(VERIF, "work")
JAR = "/opt/veriftools/tla/tla2tools.jar:/opt/veriftools/tla/CommunityModules-deps.jar"


class ToolError(Exception):
    pass


def log(*a):
    print("[check]", *a, file=sys.stderr, flush=True)


def sh(cmd, **kw):
    return subprocess.run(cmd, stdout=subprocess.PIPE, stderr=subprocess.STDOUT, text=True, **kw)


def spec_hash():
    h = hashlib.sha256()
    for f in sorted(os.listdir(SPEC)):
        if f.endswith(".tla"):
            h.update(f.encode())
            h.update(open(os.path.join(SPEC, f), "rb").read())
    return h.hexdigest()[:16]


def java(extra, args, cwd, env=None, timeout=3600, xmx="6g"):
    cmd = ["java", "-XX:+UseParallelGC", "-XX:ParallelGCThreads=4", "-Xmx" + xmx] + extra + ["-cp", JAR, "tlc2.TLC"] + args
    e = dict(os.environ)
    if env:
        e.update(env)
    try:
        return subprocess.run(cmd, cwd=cwd, env=e, stdout=subprocess.PIPE, stderr=subprocess.STDOUT, text=True, timeout=timeout)
    except subprocess.TimeoutExpired:
        raise ToolError("TLC timed out: " + " ".join(args))


def unescape_tla(s):
    # TLC prints strings with \" and \\ escaped
    out, i = [], 0
    while i < len(s):
        ch = s[i]
        if ch == "\\" and i + 1 < len(s):
            out.append(s[i + 1])
            i += 2
        else:
            out.append(ch)
            i += 1
    return "".join(out)


def tagged_lines(text, tag):
    """Yield the JSON payload of lines  <<"TAG", "....">>  printed by PrintT."""
    pre = '<<"%s", "' % tag
    for line in text.splitlines():
        if line.startswith(pre) and line.endswith('">>'):
            yield unescape_tla(line[len(pre):-3])


def render_cfg(cfg, constants, extra_lines=()):
    """MC cfg = committed template spec/<cfg>.cfg with CONSTANT values overridden."""
    src = open(os.path.join(SPEC, cfg + ".cfg")).read().splitlines()
    out = []
    for ln in src:
        m = re.match(r"\s*CONSTANT\s+(\w+)\s*=\s*(.+)$", ln)
        if m and m.group(1) in constants:
            out.append("CONSTANT %s = %s" % (m.group(1), constants[m.group(1)]))
        else:
            out.append(ln)
    out.extend(extra_lines)
    return "\n".join(out) + "\n"


def run_mc(model, constants, workers=8, timeout=3600, cfg=None):
    """Model-check spec/<model>.tla; returns dict(cases=path, stats...). Cached by spec hash + constants."""
    cfg = cfg or model
    key = hashlib.sha256((spec_hash() + model + cfg + json.dumps(constants, sort_keys=True)).encode()).hexdigest()[:16]
    cdir = os.path.join(WORK, "cache", cfg + "-" + key)
    meta = os.path.join(cdir, "meta.json")
    if os.path.exists(meta):
        return json.load(open(meta))
    final_cdir = cdir
    cdir = cdir + ".tmp%d" % os.getpid()
    os.makedirs(cdir, exist_ok=True)
    cfgname = "_%s_%s_%d.cfg" % (cfg, key, os.getpid())
    cfgpath = os.path.join(SPEC, cfgname)
    with open(cfgpath, "w") as f:
        f.write(render_cfg(cfg, constants))
    t0 = time.time()
    try:
        r = java(["-Xss512m"], ["-workers", str(workers), "-metadir", os.path.join(cdir, "md"), "-cleanup",
                      "-noGenerateSpecTE", "-config", cfgname, model + ".tla"], cwd=SPEC, timeout=timeout)
    finally:
        os.unlink(cfgpath)
    outp = r.stdout
    open(os.path.join(cdir, "tlc.out"), "w").write("\n".join(l for l in outp.splitlines() if not l.startswith(('<<"REPLAY"', '<<"TABLES"'))))
    if "Model checking completed. No error has been found." not in outp:
        tail = "\n".join(l for l in outp.splitlines() if not l.startswith('<<"REPLAY"'))[-4000:]
        shutil.rmtree(cdir, ignore_errors=True)
        raise ToolError("model %s: TLC reported a problem (the DESIGN layer violates a property, or a spec error):\n%s" % (model, tail))
    m = re.search(r"(\d+) states generated, (\d+) distinct states found", outp)
    generated, distinct = int(m.group(1)), int(m.group(2))
    ncases = 0
    cases_path = os.path.join(cdir, "cases.jsonl")
    seen = set()
    with open(cases_path, "w") as f:
        for js in tagged_lines(outp, "REPLAY"):
            hid = hashlib.sha256(js.encode()).hexdigest()[:12]
            if hid in seen:
                continue
            seen.add(hid)
            case = json.loads(js)
            case["id"] = cfg[3:].lower() + "-" + hid
            f.write(json.dumps(case, separators=(",", ":")) + "\n")
            ncases += 1
    tables = None
    for js in tagged_lines(outp, "TABLES"):
        tables = os.path.join(cdir, "tables.json")
        open(tables, "w").write(js)
    # vacuity guard: every action of the model must have been taken
    never = re.findall(r"<(\w+) line \d+, col \d+ to line \d+, col \d+ of module \w+>: 0:0", outp)
    res = dict(model=cfg, constants=constants, cases=cases_path, ncases=ncases, states=distinct,
               transitions=generated, mc_wall_s=round(time.time() - t0, 1), never_taken=never, key=key)
    if ncases == 0:
        raise ToolError("model %s exported no behaviour" % model)
    res["cases"] = os.path.join(final_cdir, "cases.jsonl")
    res["tables"] = os.path.join(final_cdir, "tables.json") if tables else None
    json.dump(res, open(os.path.join(cdir, "meta.json"), "w"))
    try:
        os.rename(cdir, final_cdir)
    except OSError:
        shutil.rmtree(cdir, ignore_errors=True)      # another run created it meanwhile
    return res


PROFILES = {  # name -> (cargo args, target sub-dir, binary sub-path)
    "dev+b": (["build"], "tb", "debug"),
    "rel+b": (["build", "--release"], "tb", "release"),
    "dev-b": (["build", "--no-default-features"], "tnb", "debug"),
    "rel-b": (["build", "--release", "--no-default-features"], "tnb", "release"),
}


def build_harness(profiles, repo="/repo"):
    """cargo build of the harness against `repo`'s working tree. Returns {profile: binary}."""
    bins = {}
    troot = os.path.join(HARNESS, "target")
    if repo != "/repo":     # scratch copies get their own target dir so that concurrent runs do not overwrite binaries
        troot = os.path.join(HARNESS, "target", "alt-" + hashlib.sha256(repo.encode()).hexdigest()[:10])
    for p in profiles:
        args, tdir, sub = PROFILES[p]
        cmd = ["cargo"] + args + ["--offline", "--target-dir", os.path.join(troot, tdir)]
        if repo != "/repo":
            for crate in ("multiboot2", "multiboot2-common", "multiboot2-header"):
                cmd += ["--config", 'patch.crates-io.%s.path="%s/%s"' % (crate, repo, crate)]
        r = sh(cmd, cwd=HARNESS, env=dict(os.environ, CARGO_NET_OFFLINE="true"))
        if r.returncode != 0:
            raise ToolError("cargo build failed for %s:\n%s" % (p, r.stdout[-6000:]))
        bins[p] = os.path.join(troot, tdir, sub, "mb2conf")
    return bins


def run_harness(binary, cases, outdir, tag, shards=8, place="both", timeout=10):
    """Replays cases (sharded) -> list of trace files."""
    os.makedirs(outdir, exist_ok=True)
    traces = [os.path.join(outdir, "%s.%d.ndjson" % (tag, k)) for k in range(shards)]

    def one(k):
        r = sh([binary, "run", "--cases", cases, "--out", traces[k], "--shard", "%d/%d" % (k, shards),
                "--place", place, "--timeout", str(timeout)])
        if r.returncode != 0:
            raise ToolError("harness failed (%s shard %d):\n%s" % (tag, k, r.stdout[-3000:]))
        return r.stdout

    with ThreadPoolExecutor(max_workers=shards) as ex:
        outs = list(ex.map(one, range(shards)))
    crashes = sum(int(m.group(1)) for o in outs for m in re.finditer(r"(\d+) worker crashes", o))
    return [t for t in traces if os.path.getsize(t) > 0], crashes


def validate_trace(trace, timeout=3600, spec="Trace"):
    """TLC trace validation of one ndjson trace. Returns (violations, events)."""
    md = trace + ".md"
    r = java(["-Xss1g", "-Dtlc2.tool.queue.IStateQueue=StateDeque"],
             ["-workers", "1", "-metadir", md, "-cleanup", "-noGenerateSpecTE", "-config", spec + ".cfg", spec + ".tla"],
             cwd=SPEC, env={"TRACE": trace}, timeout=timeout, xmx="3g")
    shutil.rmtree(md, ignore_errors=True)
    outp = r.stdout
    m = re.search(r'<<"CONSUMED", (\d+)>>', outp)
    if not m or "Model checking completed. No error has been found." not in outp:
        open(trace + ".tlc.out", "w").write(outp)
        raise ToolError("trace validation did not consume %s (TLC evaluation error or unconsumed events); see %s.tlc.out\n%s"
                        % (trace, trace, "\n".join(l for l in outp.splitlines() if not l.startswith('<<"VIOL"'))[-3000:]))
    viols = [json.loads(js) for js in tagged_lines(outp, "VIOL")]
    return viols, int(m.group(1))


def validate_traces(traces, par=8, spec="Trace"):
    with ThreadPoolExecutor(max_workers=par) as ex:
        res = list(ex.map(lambda t: validate_trace(t, spec=spec), traces))
    viols, events = [], 0
    for v, e in res:
        viols.extend(v)
        events += e
    return viols, events


def run_sweep(binary, which, tables, name, stride=1, timeout=3600):
    """Native full-domain sweep against an interval table exported from the specification."""
    r = sh([binary, "sweep", which, tables, name, str(stride)], timeout=timeout)
    if r.returncode != 0:
        raise ToolError("sweep %s failed:\n%s" % (which, r.stdout[-2000:]))
    return json.loads(r.stdout.strip().splitlines()[-1])


def merge_case_major(trace_sets, out_path):
    """trace_sets: list (one per configuration) of trace files of the SAME shard. Writes all runs of
    configuration 1, 2, ... for run 0, then for run 1, ... (a pure reordering of lines)."""
    per_cfg = []
    for path in trace_sets:
        runs = {}
        if os.path.exists(path):
            for line in open(path):
                m = re.search(r'"run":(\d+)', line)
                runs.setdefault(int(m.group(1)), []).append(line)
        per_cfg.append(runs)
    allruns = sorted(set().union(*[set(r) for r in per_cfg]))
    n = 0
    with open(out_path, "w") as f:
        for r in allruns:
            for runs in per_cfg:
                for line in runs.get(r, []):
                    f.write(line)
                    n += 1
    return n


def run_apalache_law(law, timeout=600):
    """Decides one law with Apalache. law = "Name" (invariant of spec/APA_Arith.tla at length 0, full 32-bit domain)
    or (module, init predicate, invariant, length)."""
    if isinstance(law, str):
        module, init, inv, length = "APA_Arith", "Init", law, 0
    else:
        module, init, inv, length = law
    out = os.path.join(WORK, "apalache-%s-%s-%d" % (inv, init, os.getpid()))
    try:
        r = subprocess.run(["apalache-mc", "check", "--init=" + init, "--length=%d" % length, "--inv=" + inv, "--out-dir=" + out, module + ".tla"],
                           cwd=SPEC, stdout=subprocess.PIPE, stderr=subprocess.STDOUT, text=True, timeout=timeout)
    except subprocess.TimeoutExpired:
        raise ToolError("apalache timed out on %s" % (law,))
    finally:
        shutil.rmtree(out, ignore_errors=True)
    if "The outcome is: NoError" not in r.stdout:
        raise ToolError("Apalache does not confirm the specification-level law %s:\n%s" % (law, r.stdout[-2000:]))
    return dict(law="%s!%s from %s, length %d" % (module, inv, init, length), outcome="NoError", domain="all 32-bit values (symbolic)")


_OUT_RE = re.compile(r'"out":\{(?:"e":"[^"]*",)?"k":"(\w+)"')
_RUN_RE = re.compile(r'"run":(\d+)\}?$')


def trace_stats(traces, nplaces):
    """Measured from the recorded traces: histogram of outcome kinds and the number of distinct cases in which at least
    one call was really executed by the implementation (an outcome other than skipped / unsupported)."""
    hist, nontrivial = {}, set()
    for t in traces:
        for line in open(t):
            if line.startswith('{"call"'):
                m = _OUT_RE.search(line)
                k = m.group(1) if m else "?"
                hist[k] = hist.get(k, 0) + 1
                if k not in ("skipped", "unsupported"):
                    r = _RUN_RE.search(line.rstrip())
                    if r:
                        nontrivial.add((t, int(r.group(1)) // max(nplaces, 1)))
    return hist, len(nontrivial)
