"""Seeded mutation driver: takes specification-exported cases (images of well-formed and boundary structures)
and perturbs them - byte flips, hostile values in size-like words, truncation of the declared total size,
tag swaps - keeping the call plan. The mutated cases carry no expectation; TLC judges the recorded outcomes."""
import json, random

NASTY = [0, 1, 7, 8, 9, 15, 16, 17, 23, 24, 31, 32, 33, 39, 40, 41, 47, 48, 63, 64, 65, 255, 256, 65535, 65536,
         0x7FFFFFFF, 0x80000000, 0xFFFFFFF8, 0xFFFFFFFF, 0x40000000, 0x3FFFFFFF]


def le32(v):
    return [v & 255, (v >> 8) & 255, (v >> 16) & 255, (v >> 24) & 255]


def mutate_info(mem, rng):
    """mem: list of bytes of a boot information region. Keeps the first word <= len(mem) (the region must exist)."""
    m = list(mem)
    n = len(m)
    for _ in range(rng.choice([1, 1, 1, 2, 3])):
        kind = rng.choice(["byte", "word", "word", "word", "size", "total", "swap"])
        if kind == "byte" and n > 8:
            i = rng.randrange(8, n)
            m[i] = rng.randrange(256)
        elif kind == "word" and n >= 16:
            i = rng.randrange(8, n - 3) & ~3
            v = rng.choice(NASTY + [rng.randrange(0, 128), rng.randrange(1 << 32)])
            m[i:i + 4] = le32(v)
        elif kind == "size" and n >= 16:
            # walk to a random tag header and perturb its size field
            off, hdrs = 8, []
            while off + 8 <= n:
                sz = m[off + 4] | m[off + 5] << 8 | m[off + 6] << 16 | m[off + 7] << 24
                hdrs.append(off)
                if sz < 8 or off + ((sz + 7) & ~7) > n:
                    break
                off += (sz + 7) & ~7
            o = rng.choice(hdrs)
            sz = m[o + 4] | m[o + 5] << 8 | m[o + 6] << 16 | m[o + 7] << 24
            v = rng.choice([max(0, sz + d) for d in (-9, -8, -7, -4, -1, 1, 4, 7, 8, 9, 16)] + NASTY)
            m[o + 4:o + 8] = le32(v & 0xFFFFFFFF)
        elif kind == "total":
            t = rng.choice([x for x in (n, n - 8, n - 16, n - 4, n - 1, 8, 16, 24, 0, 7) if 0 <= x <= n])
            m[0:4] = le32(t)
            if rng.random() < 0.6 and t >= 16 and t % 8 == 0:
                m[t - 8:t] = [0, 0, 0, 0, 8, 0, 0, 0]
        elif kind == "swap" and n >= 32:
            i = rng.randrange(8, n - 15) & ~7
            j = rng.randrange(8, n - 15) & ~7
            a, b = m[i:i + 8], m[j:j + 8]
            m[i:i + 8], m[j:j + 8] = b, a
    t = m[0] | m[1] << 8 | m[2] << 16 | m[3] << 24 if n >= 4 else 0
    if t > n:
        m[0:4] = le32(n)
    return m


def has_vbe(mem):
    """VBE tags are excluded: their enum-typed memory-model byte is the open known finding."""
    off, n = 8, len(mem)
    while off + 8 <= n:
        typ = mem[off] | mem[off + 1] << 8 | mem[off + 2] << 16 | mem[off + 3] << 24
        sz = mem[off + 4] | mem[off + 5] << 8 | mem[off + 6] << 16 | mem[off + 7] << 24
        if typ == 7:
            return True
        if sz < 8 or off + ((sz + 7) & ~7) > n:
            break
        off += (sz + 7) & ~7
    return False


GENERIC_CALLS = [{"op": "tags", "it": 90}] + [{"op": "next", "it": 90}] * 6 + [{"op": "dbg", "what": "bi"}, {"op": "module_tags", "it": 91},
                 {"op": "next", "it": 91}, {"op": "next", "it": 91}, {"op": "dbg", "what": "modules"}]


def mutated_cases(case_files, count, seed, area="mut"):
    rng = random.Random(seed)
    base = []
    for f in case_files:
        for line in open(f):
            c = json.loads(line)
            if isinstance(c.get("mem"), list) and len(c["mem"]) >= 16 and "memx" not in c and c["calls"] and c["calls"][0].get("op") == "load":
                base.append(c)
    out = []
    tries = 0
    while len(out) < count and tries < count * 20:
        tries += 1
        c = rng.choice(base)
        m = mutate_info(c["mem"], rng)
        if has_vbe(m) or has_vbe(c["mem"]):
            continue
        calls = [x for x in c["calls"] if not x.get("names")]          # names only where the generator guaranteed a string table
        calls = [dict(x, names=False) if "names" in x else x for x in c["calls"]]
        nc = dict(c, mem=m, calls=calls + GENERIC_CALLS, id="%s-%d-%d" % (area, seed, len(out)),
                  desc=dict(area=area, base=c["id"], seed=seed, n=len(out)))
        out.append(nc)
    return out


def mutate_header(mem, rng):
    """Header images: enumerated fields (architecture, tag type, flags, console flags, relocation preference) must keep
    defined values (precondition of C09), so only sizes, the length word, types within 0..10 and plain payload words move."""
    m = list(mem)
    n = len(m)
    def tags():
        off, hs = 16, []
        while off + 8 <= n:
            sz = m[off + 4] | m[off + 5] << 8 | m[off + 6] << 16 | m[off + 7] << 24
            hs.append(off)
            if sz < 8 or off + ((sz + 7) & ~7) > n:
                break
            off += (sz + 7) & ~7
        return hs
    for _ in range(rng.choice([1, 1, 2, 3])):
        kind = rng.choice(["size", "size", "length", "type", "word"])
        hs = tags()
        if kind == "size" and hs:
            o = rng.choice(hs)
            sz = m[o + 4] | m[o + 5] << 8 | m[o + 6] << 16 | m[o + 7] << 24
            v = rng.choice([max(0, sz + d) for d in (-9, -8, -7, -4, -1, 1, 4, 7, 8, 9, 16)] + NASTY)
            m[o + 4:o + 8] = le32(v & 0xFFFFFFFF)
        elif kind == "length":
            t = rng.choice([x for x in (n, n - 8, n - 16, n - 4, n - 1, 16, 24, 8, 0, 15) if 0 <= x <= n])
            m[8:12] = le32(t)
        elif kind == "type" and hs:
            o = rng.choice(hs)
            t = rng.randrange(0, 11)
            m[o:o + 2] = [t, 0]
            m[o + 2:o + 4] = [rng.randrange(2), 0]
        elif kind == "word" and hs:
            o = rng.choice(hs)
            typ = m[o]
            sz = m[o + 4] | m[o + 5] << 8 | m[o + 6] << 16 | m[o + 7] << 24
            if sz >= 12 and o + 12 <= n and typ not in (4,):
                w = o + 8 + 4 * rng.randrange(0, max(1, min((sz - 8) // 4, 3)))
                if w + 4 <= n and not (typ == 10 and w == o + 20):
                    m[w:w + 4] = le32(rng.choice(NASTY + [rng.randrange(1 << 32)]))
    # keep enumerated payload fields of console (4) and relocatable (10) tags defined
    for o in tags():
        if m[o] == 4 and o + 12 <= n:
            m[o + 8:o + 12] = le32(m[o + 8] % 2)
        if m[o] == 10 and o + 24 <= n:
            m[o + 20:o + 24] = le32(m[o + 20] % 3)
    ln = m[8] | m[9] << 8 | m[10] << 16 | m[11] << 24
    if ln > n:
        ln = n
        m[8:12] = le32(ln)
    if rng.random() < 0.85:      # mostly keep the header loadable: fix the checksum
        magic = m[0] | m[1] << 8 | m[2] << 16 | m[3] << 24
        arch = m[4] | m[5] << 8 | m[6] << 16 | m[7] << 24
        m[12:16] = le32((-(magic + arch + ln)) & 0xFFFFFFFF)
    return m


HGENERIC = [{"op": "htags", "it": 90}] + [{"op": "next", "it": 90}] * 6 + [{"op": "hdbg", "what": "hdr"}] + \
           [{"op": "hget", "kind": k} for k in ("info_req", "address", "entry", "console", "hfb", "module_align", "hefi_bs", "entry_efi32", "entry_efi64", "relocatable")] + \
           [{"op": "hfield", "kind": "info_req", "f": "requests"}, {"op": "hfield", "kind": "relocatable", "f": "preference"},
            {"op": "hdbg", "what": "info_req"}, {"op": "hdbg", "what": "relocatable"}]


def mutated_header_cases(case_files, count, seed, area="hmut"):
    rng = random.Random(seed)
    base = []
    for f in case_files:
        for line in open(f):
            c = json.loads(line)
            if isinstance(c.get("mem"), list) and len(c["mem"]) >= 24 and c["calls"] and c["calls"][0].get("op") == "hload" and not c["calls"][0].get("null"):
                base.append(c)
    out = []
    while len(out) < count:
        c = rng.choice(base)
        m = mutate_header(c["mem"], rng)
        out.append(dict(c, mem=m, calls=c["calls"] + HGENERIC, id="%s-%d-%d" % (area, seed, len(out)),
                        desc=dict(area=area, base=c["id"], seed=seed, n=len(out))))
    return out
