"""Native generators of builder histories (C06 / C12): subsets, orders and repeated calls of the builders' setters.
Argument records are not invented here: they are the `b_set` / `hb_set` calls of the specification-exported
Builder / HBuilder corpora (spec/MC_Build.tla: SlotArgs), re-combined."""
import json, random, itertools


def templates(cases_file, op):
    t = {}
    for line in open(cases_file):
        c = json.loads(line)
        for call in c["calls"]:
            if call.get("op") == op:
                key = json.dumps(call, sort_keys=True)
                t.setdefault(call["slot"], {})[key] = call
    return {k: list(v.values()) for k, v in t.items()}


def builder_cases(cases_file, count, seed, exhaustive_small=True):
    rng = random.Random(seed)
    tpl = templates(cases_file, "b_set")
    slots = sorted(tpl)
    out = []
    def mk(seq, tag):
        calls = [{"op": "b_new", "default": len(seq) % 2 == 1}] + seq + [{"op": "b_build"}, {"op": "b_load"}]
        out.append(dict(id="bgen-%d-%d" % (seed, len(out)), mem=[], al=0, calls=calls,
                        desc=dict(area="bgen", kind=tag, slots=[c["slot"] for c in seq], seed=seed)))
    if exhaustive_small:
        # all subsets of size >= len-1 (the full set and every "all but one"), canonical and reversed order
        for miss in [None] + slots:
            seq = [tpl[s][0] for s in slots if s != miss]
            mk(seq, "allbut")
            mk(list(reversed(seq)), "allbut-rev")
    while len(out) < count:
        k = rng.choice([rng.randrange(0, len(slots) + 1), rng.randrange(0, 6), rng.randrange(len(slots) - 4, len(slots) + 1)])
        sub = rng.sample(slots, k)
        seq = [rng.choice(tpl[s]) for s in sub]
        # repeated calls: single-valued slots set twice (last wins), repeatable slots added several times
        for _ in range(rng.choice([0, 0, 1, 2, 4])):
            s = rng.choice(slots)
            seq.insert(rng.randrange(len(seq) + 1), rng.choice(tpl[s]))
        mk(seq, "random")
    return out


def hbuilder_cases(cases_file, count, seed):
    rng = random.Random(seed)
    tpl = templates(cases_file, "hb_set")
    slots = sorted(tpl)
    out = []
    while len(out) < count:
        k = rng.randrange(0, len(slots) + 1)
        seq = [rng.choice(tpl[s]) for s in rng.sample(slots, k)]
        for _ in range(rng.choice([0, 1, 2, 3])):
            s = rng.choice(slots)
            seq.insert(rng.randrange(len(seq) + 1), rng.choice(tpl[s]))
        calls = [{"op": "hb_new", "arch": rng.choice([0, 4])}] + seq + [{"op": "hb_build"}, {"op": "hb_load"}]
        out.append(dict(id="hbgen-%d-%d" % (seed, len(out)), mem=[], al=0, calls=calls,
                        desc=dict(area="hbgen", slots=[c["slot"] for c in seq], seed=seed)))
    return out


def read_templates(cases_file, ops=("get", "field", "str", "area")):
    """per kind: the read calls (getter, every field accessor, strings, areas) of the exported Fields corpus"""
    t = {}
    for line in open(cases_file):
        c = json.loads(line)
        for call in c["calls"]:
            if call.get("op") in ops:
                k = "mmap" if call["op"] == "area" else call["kind"]
                t.setdefault(k, {})[json.dumps(call, sort_keys=True)] = call
    return {k: list(v.values()) for k, v in t.items()}


def session_cases(files, count, seed):
    """construct -> build -> the built bytes become the image -> load -> walk -> every getter / accessor of the
    kinds that were supplied (and of some that were not) -> iterators -> Debug."""
    builder_file, fields_file = files[0], files[1]
    rng = random.Random(seed)
    tpl = templates(builder_file, "b_set")
    reads = read_templates(fields_file)
    slots = sorted(tpl)
    out = []
    while len(out) < count:
        k = rng.choice([rng.randrange(0, 6), rng.randrange(0, len(slots) + 1)])
        sub = rng.sample(slots, k)
        seq = [rng.choice(tpl[s]) for s in sub]
        for _ in range(rng.choice([0, 0, 1, 2])):
            s = rng.choice(["module", "smbios", "custom"] + slots)
            seq.insert(rng.randrange(len(seq) + 1), rng.choice(tpl[s]))
        calls = [{"op": "b_new", "default": len(seq) % 2 == 1}] + seq + [{"op": "b_build"}, rng.choice([{"op": "use_built", "which": "info"}, {"op": "use_built", "which": "info", "res": 0},
                                                                                {"op": "use_built", "which": "info", "res": 8}]), {"op": "load"},
                                          {"op": "tags", "it": 0}] + [{"op": "next", "it": 0}] * (len(seq) + 3)
        present = {c["slot"] for c in seq}
        for kind in sorted(present | set(rng.sample(sorted(reads), 3))):
            if kind in reads:
                rc = reads[kind]
                calls += rc if len(rc) <= 12 else rng.sample(rc, 12)
        calls += [{"op": "module_tags", "it": 1}, {"op": "next", "it": 1}, {"op": "next", "it": 1}, {"op": "next", "it": 1},
                  {"op": "efi_areas", "it": 2}, {"op": "len", "it": 2}, {"op": "next", "it": 2}, {"op": "len", "it": 2},
                  {"op": "elf_sections", "it": 3}, {"op": "next", "it": 3, "names": False},
                  {"op": "dbg", "what": "bi"}, {"op": "b_load"}]
        out.append(dict(id="sess-%d-%d" % (seed, len(out)), mem=[], al=0, calls=calls,
                        desc=dict(area="session", slots=[c["slot"] for c in seq], seed=seed)))
    return out


def hsession_cases(files, count, seed):
    """header side: construct -> build -> the built bytes become the image -> load -> walk -> getters / fields -> Debug"""
    hb_file, hfields_file = files[0], files[1]
    rng = random.Random(seed)
    tpl = templates(hb_file, "hb_set")
    reads = {}
    for line in open(hfields_file):
        c = json.loads(line)
        for call in c["calls"]:
            if call.get("op") in ("hget", "hfield"):
                reads.setdefault(call["kind"], {})[json.dumps(call, sort_keys=True)] = call
    reads = {k: list(v.values()) for k, v in reads.items()}
    slots = sorted(tpl)
    out = []
    while len(out) < count:
        k = rng.randrange(0, len(slots) + 1)
        seq = [rng.choice(tpl[s]) for s in rng.sample(slots, k)]
        for _ in range(rng.choice([0, 0, 1, 2])):
            s = rng.choice(slots)
            seq.insert(rng.randrange(len(seq) + 1), rng.choice(tpl[s]))
        calls = [{"op": "hb_new", "arch": rng.choice([0, 4])}] + seq + [{"op": "hb_build"}, rng.choice([{"op": "use_built", "which": "header"}, {"op": "use_built", "which": "header", "res": 0},
                                                                                                      {"op": "use_built", "which": "header", "res": 8}]), {"op": "hload"}]
        calls += [{"op": "hacc", "f": f} for f in ("header_magic", "arch", "length", "checksum", "verify_checksum")]
        calls += [{"op": "htags", "it": 0}, {"op": "count", "it": 0}] + [{"op": "next", "it": 0}] * (len(seq) + 3)
        for kind in sorted(reads):
            calls += reads[kind]
        calls += [{"op": "hdbg", "what": "hdr"}, {"op": "hb_load"}]
        out.append(dict(id="hsess-%d-%d" % (seed, len(out)), mem=[], al=0, calls=calls,
                        desc=dict(area="hsession", slots=[c["slot"] for c in seq], seed=seed)))
    return out


def perm_cases(files, count, seed):
    """'programs' quantifier of C01 / C09: the same calls in a different order. The first call (load) stays first; calls that
    use an iterator keep their relative order; the pure calls (getters, accessors, strings, Debug) are shuffled and the two
    groups interleaved at random. The specification predicts order-independent results; TLC judges every event."""
    rng = random.Random(seed)
    base = []
    for f in files:
        for line in open(f):
            c = json.loads(line)
            if len(c["calls"]) >= 4 and c["calls"][0].get("op") in ("load", "hload"):
                base.append(c)
    out = []
    while len(out) < count:
        c = rng.choice(base)
        first, rest = c["calls"][0], c["calls"][1:]
        iters = [x for x in rest if "it" in x]
        pure = [x for x in rest if "it" not in x]
        rng.shuffle(pure)
        merged, i, j = [], 0, 0
        while i < len(iters) or j < len(pure):
            if j >= len(pure) or (i < len(iters) and rng.random() < len(iters) / (len(iters) + len(pure) + 0.0)):
                merged.append(iters[i]); i += 1
            else:
                merged.append(pure[j]); j += 1
        # a second load in the middle must not disturb anything either (iterators created before stay valid)
        # the base case's descriptor is kept (a known finding is identified by it), only the area changes
        out.append(dict(c, calls=[first] + merged, id="perm-%d-%d" % (seed, len(out)),
                        desc=dict(c.get("desc", {}), area="perm", base=c["id"], base_area=c.get("desc", {}).get("area"), seed=seed)))
    return out


def _parse_byte_arrays(src):
    """byte-array literals wrapped in AlignedBytes(...) / AlignedBytes::new(...) in Rust test code"""
    import re
    out = []
    for m in re.finditer(r"AlignedBytes(?:::new)?\(\s*\[", src):
        i = m.end()
        depth, j = 1, i
        while j < len(src) and depth:
            if src[j] == "[":
                depth += 1
            elif src[j] == "]":
                depth -= 1
            j += 1
        body = re.sub(r"//[^\n]*|/\*.*?\*/", "", src[i:j - 1], flags=re.S)
        vals = []
        ok = True
        for tok in body.replace("\n", " ").split(","):
            tok = tok.strip()
            if not tok:
                continue
            tok = re.sub(r"_?u8$", "", tok).replace("_", "")
            try:
                v = int(tok, 0)
            except ValueError:
                ok = False
                break
            if not 0 <= v <= 255:
                ok = False
                break
            vals.append(v)
        if ok and len(vals) >= 16:
            out.append(vals)
    return out


def repo_cases(files, count, seed):
    """The images the repository's own tests parse (GRUB dump, VBE, framebuffer, ELF, EFI, custom tags; header images),
    extracted from the test sources of the tree under test, each exercised with the full read plan and judged by TLC."""
    import os, glob
    repo = os.environ.get("MB2_REPO", "/repo")
    reads = read_templates(files[0])
    hreads = {}
    for line in open(files[1]):
        c = json.loads(line)
        for call in c["calls"]:
            if call.get("op") in ("hget", "hfield"):
                hreads.setdefault(call["kind"], {})[json.dumps(call, sort_keys=True)] = call
    imgs = []
    for path in sorted(glob.glob(repo + "/multiboot2*/src/**/*.rs", recursive=True)):
        for arr in _parse_byte_arrays(open(path).read()):
            imgs.append((os.path.relpath(path, repo), arr))
    out = []
    for n, (path, arr) in enumerate(imgs):
        word0 = arr[0] | arr[1] << 8 | arr[2] << 16 | arr[3] << 24
        if arr[:4] == [0xD6, 0x50, 0x52, 0xE8]:
            ln = arr[8] | arr[9] << 8 | arr[10] << 16 | arr[11] << 24
            if ln > len(arr) or arr[4] not in (0, 4) or arr[5:8] != [0, 0, 0]:
                continue
            calls = [{"op": "hload"}] + [{"op": "hacc", "f": f} for f in ("header_magic", "arch", "length", "checksum", "verify_checksum")]
            calls += [{"op": "htags", "it": 0}, {"op": "count", "it": 0}] + [{"op": "next", "it": 0}] * 14
            for kind in sorted(hreads):
                calls += list(hreads[kind].values())
            calls += [{"op": "hdbg", "what": "hdr"}, {"op": "find_header"}]
            out.append(dict(id="repo-%d" % n, mem=arr[:max(ln, 16)] if ln >= 16 else arr, al=0, calls=calls, desc=dict(area="repo", file=path, n=n, kind="header")))
        elif 16 <= word0 <= len(arr) and word0 % 8 == 0:
            mem = arr[:word0]
            if any(mem[o] == 7 for o in range(8, len(mem) - 8, 8) if mem[o + 1:o + 4] == [0, 0, 0] and mem[o + 4] | mem[o + 5] << 8 == 784) and False:
                pass
            calls = [{"op": "load"}, {"op": "tags", "it": 0}, {"op": "count", "it": 0}] + [{"op": "next", "it": 0}] * 30
            for kind in sorted(reads):
                calls += reads[kind]
            calls += [{"op": "module_tags", "it": 1}] + [{"op": "next", "it": 1}] * 4
            calls += [{"op": "efi_areas", "it": 2}, {"op": "len", "it": 2}] + [{"op": "next", "it": 2}] * 12 + [{"op": "len", "it": 2}]
            calls += [{"op": "elf_sections", "it": 3}] + [{"op": "next", "it": 3, "names": False}] * 20
            calls += [{"op": "dbg", "what": "bi"}]
            out.append(dict(id="repo-%d" % n, mem=mem, al=0, calls=calls, desc=dict(area="repo", file=path, n=n, kind="info")))
    return out
